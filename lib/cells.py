"""Fixed family of rational cells used by the Python-level harnesses (rows are lattice vectors)."""
from fractions import Fraction as F

# rows with rational norms (7, 9, 11): a rotated, sheared triclinic cell without square roots
PYTH = [[2, 3, 6], [-1, 4, 8], [2, -6, 9]]
ORTHO = [[3, 0, 0], [0, 4, 0], [0, 0, 5]]
TRICL = [[3, 0, 0], [1, 4, 0], [-1, 2, 5]]          # |b| = sqrt(17), |c| = sqrt(30): algebraic constants
SHEAR = [[2, 0, 0], [14, 2, 0], [-6, 10, 2]]          # unimodular-mangled cubic cell (2*[[1,0,0],[7,1,0],[-3,5,1]])
# orthogonal cell rotated by the rational rotation with rows (2,3,6)/7, (3,-6,2)/7, (6,2,-3)/7 and scaled
ROT = [[F(2 * 3, 7), F(3 * 3, 7), F(6 * 3, 7)], [F(3 * 4, 7), F(-6 * 4, 7), F(2 * 4, 7)], [F(6 * 5, 7), F(2 * 5, 7), F(-3 * 5, 7)]]
NEEDLE = [[1, 0, 0], [0, 1, 0], [0, 0, 30]]
PLATE = [[12, 0, 0], [5, 12, 0], [0, 0, F(1, 2)]]

FAMILY = {"ortho": ORTHO, "pyth": PYTH, "tricl": TRICL, "shear": SHEAR, "rot": ROT, "needle": NEEDLE, "plate": PLATE}
QUICK = ["ortho", "pyth"]
PBCS = [(a, b, c) for a in (False, True) for b in (False, True) for c in (False, True)]
