"""Shared protocol for every check: evidence, known findings, violation reporting.

Exit codes: 0 held (or only listed known findings), 1 reproduced unlisted violation,
2 harness error / inconclusive / non-reproducing counterexample.
"""
import hashlib
import inspect
import json
import os
import sys
import time

VERIF = os.path.dirname(os.path.dirname(os.path.abspath(__file__)))
REPO = os.environ.get("VERIF_REPO", "/repo")
KNOWN_FILE = os.path.join(VERIF, "known_findings.json")
# scratch runs (seeded changes applied to a copy of the repository) write their evidence and replays elsewhere
OUT = os.environ.get("VERIF_OUT", VERIF)


def load_known():
    if not os.path.exists(KNOWN_FILE):
        return {}
    data = json.load(open(KNOWN_FILE))
    return {(f["property"], f["key"]): f for f in data.get("findings", [])}


def src_sha(obj):
    """sha256 of the current source of a function/class/module or of a file path."""
    try:
        if isinstance(obj, str) and os.path.exists(obj):
            return hashlib.sha256(open(obj, "rb").read()).hexdigest()[:16]
        return hashlib.sha256(inspect.getsource(obj).encode()).hexdigest()[:16]
    except Exception as e:  # pragma: no cover
        return "unavailable:" + type(e).__name__


def jsonable(x):
    import fractions
    try:
        import numpy as np
    except Exception:  # pragma: no cover
        np = None
    if isinstance(x, dict):
        return {str(k): jsonable(v) for k, v in x.items()}
    if isinstance(x, (list, tuple, set, frozenset)):
        return [jsonable(v) for v in x]
    if isinstance(x, fractions.Fraction):
        return str(x)
    if np is not None:
        if isinstance(x, np.ndarray):
            return jsonable(x.tolist())
        if isinstance(x, np.generic):
            return jsonable(x.item())
    if isinstance(x, float):
        if x != x:
            return "nan"
        if x in (float("inf"), float("-inf")):
            return "inf" if x > 0 else "-inf"
        return x
    if isinstance(x, (int, str, bool)) or x is None:
        return x
    return str(x)


class Report:
    """Collects what a check covered and decides the exit code."""

    def __init__(self, pid, tier, seed, level="model_checking"):
        self.pid, self.tier, self.seed, self.level = pid, tier, int(seed), level
        self.t0 = time.time()
        self.paths = 0            # explored paths (states)
        self.forks = 0            # fork decisions (transitions)
        self.validated = 0        # witness replays against the real implementation that agreed
        self.validation_skipped = 0
        self.queries = {"unsat": 0, "sat": 0, "unknown": 0}
        self.obligations = 0
        self.discharged = 0
        self.solver_s = 0.0
        self.samples = []
        self.functions = {}
        self.bounds = {}
        self.stubs = []
        self.assumptions = []
        self.outside = []
        self.inconclusive = []
        self.harness_errors = []
        self.violations = []      # dicts: key, what, replay(dict), reproduced(bool)
        self.sub = {}             # per-harness statistics
        self.must_reach = {}      # label -> count
        self.extra = {}

    # ------------------------------------------------------------------ bookkeeping
    def function(self, obj, name=None):
        if name is None:
            name = getattr(obj, "__module__", "") + "." + getattr(obj, "__qualname__", str(obj))
        self.functions[name] = src_sha(obj)

    def source_file(self, path):
        self.functions[os.path.relpath(path, REPO) if path.startswith(REPO) else path] = src_sha(path)

    def sample(self, s, cap=6):
        if len(self.samples) < cap:
            self.samples.append(jsonable(s))

    def reach(self, label, n=1):
        self.must_reach[label] = self.must_reach.get(label, 0) + n

    def require_reached(self, *labels):
        for l in labels:
            if self.must_reach.get(l, 0) == 0:
                self.harness_errors.append(f"vacuity: must-reach branch '{l}' has no witness")

    def merge_stats(self, st, name=None):
        """Merge a statistics dict produced by symx.explore / a worker."""
        self.paths += st.get("paths", 0)
        self.forks += st.get("forks", 0)
        self.validated += st.get("validated", 0)
        self.validation_skipped += st.get("validation_skipped", 0)
        for k in ("unsat", "sat", "unknown"):
            self.queries[k] += st.get("queries", {}).get(k, 0)
        self.obligations += st.get("obligations", 0)
        self.discharged += st.get("discharged", 0)
        self.solver_s += st.get("solver_s", 0.0)
        for s in st.get("samples", []):
            self.sample(s)
        for l, n in st.get("reach", {}).items():
            self.reach(l, n)
        self.inconclusive.extend(st.get("inconclusive", []))
        self.harness_errors.extend(st.get("harness_errors", []))
        for v in st.get("violations", []):
            self.violations.append(dict(v, replay=jsonable(v.get("replay", {}))))
        if name is not None:
            d = self.sub.setdefault(name, {"paths": 0, "forks": 0, "obligations": 0, "discharged": 0,
                                           "validated": 0, "solver_s": 0.0, "wall_s": 0.0})
            for k in ("paths", "forks", "obligations", "discharged", "validated"):
                d[k] += st.get(k, 0)
            d["solver_s"] = round(d["solver_s"] + st.get("solver_s", 0.0), 2)
            d["wall_s"] = round(d["wall_s"] + st.get("wall_s", 0.0), 2)

    def violation(self, key, what, replay, reproduced=True):
        self.violations.append({"key": key, "what": what, "replay": jsonable(replay), "reproduced": bool(reproduced)})

    # ------------------------------------------------------------------ finish
    def finish(self):
        known = load_known()
        seen, lines = set(), []
        n_unlisted = n_known = n_nonrepro = 0
        # one report per key; a reproduced counterexample takes precedence over a non-reproducing one with the same key
        ordered = sorted(self.violations, key=lambda v: not v["reproduced"])
        for v in ordered:
            k = (self.pid, v["key"])
            if k in seen:
                continue
            seen.add(k)
            if not v["reproduced"]:
                n_nonrepro += 1
                lines.append(f"NONREPRO property={self.pid} key={v['key']} {v['what']}")
                continue
            ent = known.get(k)
            if ent is not None and ent.get("status") == "known":
                n_known += 1
                lines.append(f"KNOWN-FINDING: property={self.pid} {v['key']}: {ent.get('what', v['what'])}")
                continue
            n_unlisted += 1
            d = os.path.join(OUT, "replays", self.pid)
            os.makedirs(d, exist_ok=True)
            h = hashlib.sha256(json.dumps(v["replay"], sort_keys=True).encode()).hexdigest()[:12]
            path = os.path.join(d, h + ".json")
            json.dump({"property": self.pid, "key": v["key"], "what": v["what"], "replay": v["replay"],
                       "rerun": f"bin/check {self.pid} --replay {path}"}, open(path, "w"), indent=1)
            lines.append(f"VIOLATION property={self.pid} replay={path}")
            lines.append(f"  key={v['key']}: {v['what']}")
        wall = time.time() - self.t0
        cov = {
            "states": self.paths,
            "transitions": self.forks,
            "traces_validated_against_impl": self.validated,
            "validation_skipped_boundary": self.validation_skipped,
            "samples": self.samples or ["(no sample recorded)"],
            "obligations": self.obligations,
            "discharged": self.discharged,
            "queries": self.queries,
            "solver_s": round(self.solver_s, 2),
            "functions": self.functions,
            "bounds": self.bounds,
            "stubs": self.stubs,
            "outside_claim": self.outside,
            "inconclusive": self.inconclusive[:50],
            "harness_errors": self.harness_errors[:50],
            "must_reach": self.must_reach,
            "per_harness": self.sub,
            "known_findings_hit": n_known,
            "exhaustive": False,
            "checker_cmd": f"bin/check {self.pid} --tier {self.tier}",
            "trusted_base": ["z3 5.1 (z3-solver wheel)", "sympy 1.14", "numpy object-array dispatch", "the stubs listed under 'stubs'"],
        }
        cov.update(self.extra)
        ev = {
            "property_id": self.pid,
            "tier": self.tier,
            "seed": self.seed,
            "level": self.level,
            "coverage": jsonable(cov),
            "assumptions": self.assumptions,
            "wall_s": round(wall, 2),
            "violations": n_unlisted,
        }
        os.makedirs(os.path.join(OUT, "evidence"), exist_ok=True)
        json.dump(ev, open(os.path.join(OUT, "evidence", self.pid + ".json"), "w"), indent=1)
        for l in lines:
            print(l)
        print(f"[{self.pid}] tier={self.tier} paths={self.paths} forks={self.forks} obligations={self.obligations} "
              f"discharged={self.discharged} queries={self.queries} validated={self.validated} "
              f"solver_s={self.solver_s:.1f} wall_s={wall:.1f} known={n_known} unlisted={n_unlisted} "
              f"inconclusive={len(self.inconclusive)} harness_errors={len(self.harness_errors)}")
        if n_unlisted:
            return 1
        if self.harness_errors or self.inconclusive or n_nonrepro:
            for e in self.harness_errors[:20]:
                print("HARNESS-ERROR:", e)
            for e in self.inconclusive[:20]:
                print("INCONCLUSIVE:", e)
            return 2
        if self.paths == 0 and self.obligations == 0:
            print("HARNESS-ERROR: nothing explored")
            return 2
        return 0
