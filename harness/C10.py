"""C10 — the displacement tensor is a sound and, within range, exact minimum-image table.
Engine C (the real C++ sources against a symbolic scalar) for the table itself; Engine A for the Python wrapper."""
import itertools
from fractions import Fraction as F

import numpy as np
import z3

import matid.geometry.geometry as G
from lib.common import Report
from symx.engine import explore
from symx.values import SReal, SBool, Inf, zbool, const_array
from symx.npproxy import NPProxy, patched
from symx.stubs import concrete
from harness import cxx_common as X

PID = "C10"
NP = NPProxy()


def mic_bruteforce(pos, cell, pbc, K=4):
    rng = [range(-K, K + 1) if pbc[k] else [0] for k in range(3)]
    offs = np.array([[a, b, g] for a in rng[0] for b in rng[1] for g in rng[2]], dtype=float)
    n = len(pos)
    out = np.zeros((n, n))
    for i in range(n):
        for j in range(n):
            out[i, j] = np.linalg.norm(pos[i] - pos[j] - offs @ cell, axis=1).min()
    return out


def conc_wrapper(pos, cell, pbc, cutoff):
    """public wrapper with the shipped extension vs a brute-force minimum-image table"""
    pos, msgs = np.array(pos, float), []
    cellv = np.eye(3) if cell is None else np.array(cell, float)
    pb = G.expand_pbc(pbc)
    # the statement is about atoms lying inside the cell: fold them in along periodic axes first
    fr = np.linalg.solve(cellv.T, pos.T).T
    for k in range(3):
        if pb[k]:
            fr[:, k] %= 1.0
    pos = fr @ cellv
    try:
        disp, fac, dist = G.get_displacement_tensor(pos, None if cell is None else cellv, pbc, cutoff=cutoff, return_factors=True, return_distances=True)
        only = G.get_displacement_tensor(pos, None if cell is None else cellv, pbc, cutoff=cutoff)
        two = G.get_displacement_tensor(pos, None if cell is None else cellv, pbc, cutoff=cutoff, return_distances=True)
    except Exception as ex:
        return [f"get_displacement_tensor raised {type(ex).__name__}: {ex}"]
    if not (isinstance(only, np.ndarray) and only.shape == disp.shape and isinstance(two, tuple) and len(two) == 2 and two[1].shape == dist.shape):
        msgs.append("result tuple layout does not follow the return_factors/return_distances flags")
    ref = mic_bruteforce(pos, cellv, pb)
    cut = float("inf") if cutoff is None else cutoff
    lens = [np.linalg.norm(cellv[k]) for k in range(3) if pb[k]]
    reach = cut if cut != float("inf") else (max(lens) if lens else float("inf"))
    n = len(pos)
    for i in range(n):
        for j in range(n):
            if i == j:
                continue
            if np.isinf(dist[i, j]):
                if ref[i, j] <= reach * (1 - 1e-9):
                    msgs.append(f"pair ({i},{j}) with minimum-image distance {ref[i, j]:.6g} within {'the cutoff' if cut != float('inf') else 'the longest periodic vector'} {reach:.6g} reported as infinite")
            else:
                if cut != float("inf") and dist[i, j] > cut * (1 + 1e-9):
                    msgs.append(f"pair ({i},{j}) beyond the cutoff {cut} reported with finite distance {dist[i, j]:.6g}")
                if ref[i, j] <= reach and dist[i, j] > ref[i, j] * (1 + 1e-9) + 1e-12:
                    msgs.append(f"pair ({i},{j}): reported {dist[i, j]:.6g}, true minimum {ref[i, j]:.6g}")
                if not np.allclose(disp[i, j], pos[i] - pos[j] - fac[i, j] @ cellv, atol=1e-9):
                    msgs.append(f"pair ({i},{j}): displacement is not r_i - r_j - factor.cell")
    return msgs


# ---------------------------------------------------------------------------------- H10b: the Python wrapper
POS2 = np.array([[0.3, 0.2, 0.1], [0.4, 3.1, 4.6]])


def h10b(e):
    pbc = e.pick([True, False, (True, True, False), (False, True, False), (False, False, False), (True, True, True)])
    cell_mode = e.pick(["given", "none"])
    cut_mode = e.pick(["symbolic", "none", "inf"])
    flags = e.pick([(False, False), (True, False), (False, True), (True, True)])
    cell = None if cell_mode == "none" else np.array([[3.0, 0, 0], [0, 3.5, 0], [0, 0, 14.0]])
    cutoff = e.real("cutoff", lo=F(1, 10), hi=40) if cut_mode == "symbolic" else (None if cut_mode == "none" else float("inf"))
    calls = []

    class Ext:
        def get_displacement_tensor(self, disp, dist, fac, positions, cell_, pbc_, cutoff_, rf, rd):
            calls.append(dict(disp=disp, dist=dist, fac=fac, positions=positions, cell=cell_, pbc=pbc_, cutoff=cutoff_, rf=rf, rd=rd))

        def __getattr__(self, k):
            raise AttributeError(k)
    exc = None
    with patched(G, np=NP), patched(G.matid, ext=Ext()):
        try:
            kw = {}
            if cut_mode != "default":
                kw["cutoff"] = cutoff
            res = G.get_displacement_tensor(POS2.copy(), cell, pbc, return_factors=flags[0], return_distances=flags[1], **kw)
        except Exception as ex:   # noqa: BLE001
            exc = ex

    def cex(env):
        cv = None if cut_mode == "none" else (float("inf") if cut_mode == "inf" else float(concrete(np.array([cutoff], dtype=object), env)[0]))
        msgs = conc_wrapper(POS2, cell, pbc, cv)
        if not msgs:
            # the witness may not expose a cutoff clamp/bypass on these two atoms in this cell: a small family of geometries
            # (the given cell, an obtuse hexagonal and a sheared cell; pairs near and far) and cutoffs through the public wrapper
            cuts = (0.5, 2.0, 4.5, 6.0, 9.0, 12.0) if cut_mode == "symbolic" else (cv,)
            geoms = [(cell, P) for P in (POS2, np.array([[0.3, 0.2, 0.1], [0.4, 0.3, 8.0]]), np.array([[0.1, 0.1, 0.1], [2.9, 0.2, 0.3], [1.5, 1.7, 6.9]]))]
            if cell is not None:
                hexc = np.array([[4.0, 0, 0], [-2.0, 2 * 3 ** 0.5, 0], [0, 0, 3.0]])
                shear = np.array([[3.0, 0, 0], [-2.5, 3.0, 0], [-1.0, -2.0, 4.0]])
                geoms += [(hexc, np.array([[0, 0, 0], [1 / 3, 2 / 3, 0.5]]) @ hexc), (shear, np.array([[0.1, 0.1, 0.1], [0.6, 0.55, 0.5]]) @ shear)]
            for cv2 in cuts:
                for cl, P in geoms:
                    msgs = conc_wrapper(P, cl, pbc, cv2)
                    if msgs:
                        return {"key": f"H10b:{cex.label}", "what": f"get_displacement_tensor(pbc={pbc}, cutoff={cv2}): " + "; ".join(msgs[:2]),
                                "replay": {"kind": "wrapper", "positions": P, "cell": None if cl is None else cl, "pbc": pbc if isinstance(pbc, bool) else list(pbc),
                                           "cutoff": "inf" if cv2 == float("inf") else cv2}, "reproduced": True}
        return {"key": f"H10b:{cex.label}", "what": f"get_displacement_tensor(pbc={pbc}, cutoff={cv}): " + "; ".join(msgs[:2]),
                "replay": {"kind": "wrapper", "positions": POS2, "cell": None if cell is None else cell, "pbc": pbc if isinstance(pbc, bool) else list(pbc), "cutoff": "inf" if cv == float("inf") else cv},
                "reproduced": bool(msgs)}

    def mk(label):
        def c(env):
            cex.label = label
            return cex(env)
        return c
    if exc is not None:
        e.post("wrapper returns normally", False, mk(f"raises:{type(exc).__name__}"))
        return
    e.post("the extension is called exactly once", len(calls) == 1, mk("ext-calls"))
    if len(calls) != 1:
        return
    c = calls[0]
    want_pbc = [pbc] * 3 if isinstance(pbc, bool) else list(pbc)
    e.post("pbc expanded to three flags", list(np.asarray(c["pbc"])) == want_pbc, mk("pbc"))
    wc = np.eye(3) if cell is None else cell
    e.post("cell forwarded (identity when none is given)", np.asarray(c["cell"]).shape == (3, 3) and all(bool(zbool(a == b)) if isinstance(a, SReal) else float(a) == float(b) for a, b in zip(np.ravel(c["cell"]), np.ravel(wc))), mk("cell"))
    if cut_mode == "symbolic":
        e.post("finite cutoff forwarded unchanged", zbool(c["cutoff"] == cutoff) if isinstance(c["cutoff"], SReal) else False, mk("cutoff"))
    else:
        e.post("missing / infinite cutoff forwarded as +inf", isinstance(c["cutoff"], (Inf, float)) and float(c["cutoff"]) == float("inf"), mk("cutoff-inf"))
    inf_filled = all(isinstance(v, Inf) or (isinstance(v, float) and v == float("inf")) for a in (c["disp"], c["dist"], c["fac"]) for v in np.ravel(a))
    e.post("tables are pre-filled with +inf and have the right shapes", inf_filled and np.asarray(c["disp"]).shape == (2, 2, 3) and np.asarray(c["dist"]).shape == (2, 2) and np.asarray(c["fac"]).shape == (2, 2, 3), mk("prefill"))
    e.post("positions forwarded", np.array_equal(np.asarray(c["positions"], dtype=float), POS2), mk("positions"))
    want = [c["disp"]] + ([c["fac"]] if flags[0] else []) + ([c["dist"]] if flags[1] else [])
    got = list(res) if isinstance(res, tuple) else [res]
    e.post("result = (displacements[, factors][, distances]) as requested", len(got) == len(want) and all(a is b for a, b in zip(got, want)) and (isinstance(res, tuple) == (len(want) > 1)), mk("result-order"))
    e.reach("H10b")
    e.sample({"pbc": str(pbc), "cell": cell_mode, "cutoff": cut_mode, "flags": flags})


def h10c(e):
    """get_distances: the radii-corrected matrix is the minimum-image matrix minus r_i + r_j; all-False pbc goes through
    the same table"""
    pbc = e.pick([(True, True, True), (True, False, False), (False, True, True), (False, False, False)])
    n = 2
    D = np.array([[SReal.const(0), e.real("d01", lo=0)], [None, SReal.const(0)]], dtype=object)
    D[1, 0] = D[0, 1]
    radii = np.array([e.real("r0", lo=0), e.real("r1", lo=0)], dtype=object)
    calls = []

    def fake_tensor(positions, cell=None, pbc=False, cutoff=float("inf"), return_factors=False, return_distances=False):
        calls.append(dict(cell=cell, pbc=pbc, cutoff=cutoff, rf=return_factors, rd=return_distances))
        out = [np.zeros((n, n, 3))]
        if return_factors:
            out.append(np.ones((n, n, 3)))
        if return_distances:
            out.append(D.copy())
        return out[0] if len(out) == 1 else tuple(out)
    from symx.stubs import StubAtoms
    at = StubAtoms(numbers=[6, 8], positions=const_array(POS2), cell=const_array(np.diag([3.0, 3.5, 14.0])), pbc=pbc)
    with patched(G, np=NP, get_displacement_tensor=fake_tensor):
        dist = G.get_distances(at, radii=radii)

    def cex(env):
        msgs = conc_distances(pbc)
        return {"key": "H10c:get_distances", "what": f"get_distances(pbc={list(pbc)}): " + ("; ".join(msgs[:2]) or "not the minimum-image matrix minus the radii"),
                "replay": {"kind": "distances", "pbc": list(pbc)}, "reproduced": bool(msgs)}
    c0 = calls[0] if calls else {}
    fw_pbc = c0.get("pbc")
    fw_pbc = [bool(fw_pbc)] * 3 if isinstance(fw_pbc, (bool, np.bool_)) else (list(np.asarray(fw_pbc, dtype=bool)) if fw_pbc is not None else None)
    cell_ok = c0.get("cell") is not None and all(bool(zbool(a == b)) if isinstance(a, SReal) else float(a) == float(b) for a, b in zip(np.ravel(np.asarray(c0.get("cell"), dtype=object)), np.ravel(at.cell)))
    e.post("the table is evaluated with the structure's own periodicity (and cell, if any axis is periodic)",
           bool(calls) and (fw_pbc == list(pbc) if any(pbc) else not any(fw_pbc or [False])) and (cell_ok or not any(pbc)), cex)
    e.post("one table evaluation with an unbounded cutoff", len(calls) == 1 and calls[0]["rd"] and (calls[0]["cutoff"] is None or float(calls[0]["cutoff"]) == float("inf")), cex)
    M = dist.dist_matrix_radii_mic
    e.post("radii-corrected matrix = distances - r_i - r_j", z3.And(*[zbool(M[i, j] == D[i, j] - radii[i] - radii[j]) for i in range(n) for j in range(n)]), cex)
    e.post("raw matrix kept", all(dist.dist_matrix_mic[i, j] is D[i, j] or bool(zbool(dist.dist_matrix_mic[i, j] == D[i, j])) for i in range(n) for j in range(n)), cex)
    e.reach("H10c")
    e.sample({"pbc": list(pbc)})


def conc_distances(pbc):
    """public get_distances on a concrete structure with pairs across the cell boundary vs the brute-force table"""
    from ase import Atoms
    from ase.data import covalent_radii
    cellv = np.array([[3.0, 0, 0], [0.5, 3.5, 0], [0, 0.7, 6.0]])
    fr = np.array([[0.05, 0.07, 0.04], [0.93, 0.95, 0.9], [0.5, 0.45, 0.55]])
    at = Atoms(numbers=[6, 8, 14], scaled_positions=fr, cell=cellv, pbc=pbc)
    msgs = []
    try:
        d = G.get_distances(at)
    except Exception as ex:
        return [f"get_distances raised {type(ex).__name__}: {ex}"]
    ref = mic_bruteforce(at.get_positions(), cellv, list(pbc))
    r = covalent_radii[at.get_atomic_numbers()]
    if not np.allclose(d.dist_matrix_mic, ref, atol=1e-9):
        i, j = np.unravel_index(np.argmax(np.abs(d.dist_matrix_mic - ref)), ref.shape)
        msgs.append(f"pair ({i},{j}): reported distance {d.dist_matrix_mic[i, j]:.6g}, true minimum-image distance {ref[i, j]:.6g}")
    if not np.allclose(d.dist_matrix_radii_mic, ref - r[:, None] - r[None, :], atol=1e-9):
        msgs.append("radii-corrected matrix is not the minimum-image matrix minus r_i + r_j")
    if not np.allclose(d.disp_tensor_mic, at.get_positions()[:, None, :] - at.get_positions()[None, :, :] - d.disp_factors @ cellv, atol=1e-9) or \
            np.abs(d.disp_factors[:, :, [k for k in range(3) if not pbc[k]]]).max(initial=0) != 0:
        msgs.append("displacements are not r_i - r_j - factor.cell with factors vanishing along non-periodic axes")
    return msgs


# ---------------------------------------------------------------------------------- driver
def configs(tier):
    cfg = []
    if tier == "quick":
        for cell, pbcs in (("ortho", ("TFF", "TTF", "FFF", "FTF")), ("tricl", ("TFF", "TTF"))):
            for pbc in pbcs:
                for ax in (0, 1, 2):
                    cfg.append([cell, pbc, 2, ax, 2, 3, 900, 1, 1])
        for cell, pbc in (("ortho", "TTT"), ("tricl", "TTF"), ("pyth", "TFF"), ("ortho", "FFF")):
            for ax in (0, 2):
                cfg.append([cell, pbc, 2, ax, "inf", 3, 900])
    else:
        # every pbc combination on the orthogonal cell with three cutoff windows; the sheared cells with the windows that finish
        # (tricl/pyth TTT with cutoff up to 3 ran past 45 min per configuration and are outside)
        for pbc in ("TFF", "FTF", "FFT", "TTF", "TFT", "FTT", "TTT", "FFF"):
            for ax in (0, 1, 2):
                for lo, hi in (((1, 2), 1), ((1, 1), 2), ((2, 1), 3)):
                    cfg.append(["ortho", pbc, 2, ax, hi, 3, 3000, lo[0], lo[1]])
            cfg.append(["ortho", pbc, 2, 0, "inf", 3, 3000])
        for cell in ("tricl", "pyth", "rot", "plate"):
            for pbc in ("TFF", "FTF", "FFT", "TTF", "FFF"):
                for ax in (0, 1, 2):
                    cfg.append([cell, pbc, 2, ax, 2, 3, 3000, 1, 1])
            cfg.append([cell, "TTF", 2, 0, "inf", 3, 3000])
        for ax in (0, 1, 2):
            cfg.append(["ortho", "TFF", 3, ax, 2, 3, 3000, 1, 1])
    return cfg


def main(tier, seed, only=None):
    rep = Report(PID, tier, seed)
    for f in ("geometry.cpp", "celllist.cpp", "geometry.h", "celllist.h"):
        rep.source_file(X.EXT + "/" + f)
    for f in (G.get_displacement_tensor, G.expand_pbc, G.get_distances):
        rep.function(f)
    rep.source_file(X.CXX + "/symd.hpp")
    built = X.compile_all(("h10a", "replay_native"))
    for name, (exe, log) in built.items():
        if exe is None:
            rep.harness_errors.append(f"compilation of {name} against the current sources failed: {log[-600:]}")
    if built["h10a"][0] and (not only or "H10a" in only):
        res = X.run_configs(built["h10a"][0], configs(tier))
        todo = X.merge_into(rep, res, "H10a")
        seen = set()
        for r, c in todo:
            inp = c["inputs"]
            key = f"H10a:{c['label'].split(' [')[0]}"
            if key in seen:
                continue
            cut = float("inf") if inp["cut"] == "inf" else float(X.frac(inp["cut"]))
            fpos = [[float(X.frac(v)) for v in row] for row in inp["f"]]
            pbc = [ch == "T" for ch in inp["pbc"]]
            msgs, _ = X.oracle_dt(built["replay_native"][0], X.CELLS[inp["cell"]], pbc, cut, fpos) if built["replay_native"][0] else (["native replay driver did not compile"], None)
            if msgs:
                seen.add(key)
            rep.violation(key, f"cell {inp['cell']}, pbc {inp['pbc']}, cutoff {cut}, fractional positions {fpos}: " + "; ".join(msgs[:3]),
                          {"kind": "dt", "cell": inp["cell"], "pbc": pbc, "cutoff": "inf" if cut == float("inf") else cut, "f": fpos}, reproduced=bool(msgs))
    if not only or "H10b" in only:
        rep.merge_stats(explore(h10b, "H10b", workers=8, timeout_ms=20000, budget_s=600), "H10b")
        rep.merge_stats(explore(h10c, "H10c", workers=2, timeout_ms=20000, budget_s=300), "H10c")
    if not only:
        rep.require_reached("H10a:finite", "H10b", "H10c")
    rep.bounds = {"H10a": "2 atoms inside the cell (3 along one axis, thorough), one symbolic fractional coordinate per atom (each axis in turn, the others from a fixed grid), "
                          "symbolic cutoff in [1,2] quick; thorough: [1/2,1], [1,2], [2,3] on the orthogonal cell with all 8 pbc, [1,2] on the other cells with <= 2 periodic axes; and +inf; cells " + ("ortho, tricl (+pyth for inf)" if tier == "quick" else "ortho, tricl, pyth, rot, plate") + "; oracle box |n|<=3",
                  "H10b": "wrapper: 6 pbc forms x cell given/None x cutoff symbolic/None/inf x 4 flag combinations", "H10c": "get_distances on 2 atoms, symbolic distances and radii"}
    rep.stubs = ["pybind11 stand-in header (arrays with bounds-checked accessors)", "SymD: fraction of z3 reals with lazy square roots; integers concretised by candidate enumeration",
                 "matid.ext replaced by a recorder in H10b; get_displacement_tensor by a recorder in H10c"]
    rep.assumptions = ["exact real arithmetic (padding 1e-4 modelled exactly, rounding not)", "atoms inside the cell"]
    rep.outside = ["two or three symbolic coordinates per atom (disc constraints: z3 unknown)", "n > 3 atoms", "floating-point bin-edge effects", "the shipped .so may lag behind the sources (cannot be rebuilt: no pybind11)"]
    return rep.finish()


def replay(d):
    if d["kind"] == "dt":
        built = X.compile_all(("replay_native",))
        cut = float("inf") if d["cutoff"] == "inf" else float(d["cutoff"])
        msgs, _ = X.oracle_dt(built["replay_native"][0], X.CELLS[d["cell"]], d["pbc"], cut, d["f"])
        return bool(msgs), "; ".join(msgs[:5]) or "ok"
    if d["kind"] == "distances":
        msgs = conc_distances(tuple(d["pbc"]))
        return bool(msgs), "; ".join(msgs[:5]) or "ok"
    if d["kind"] == "wrapper":
        cut = float("inf") if d["cutoff"] == "inf" else d["cutoff"]
        msgs = conc_wrapper(np.array(d["positions"], float), None if d["cell"] is None else np.array(d["cell"], float), d["pbc"] if isinstance(d["pbc"], bool) else tuple(d["pbc"]), cut)
        return bool(msgs), "; ".join(msgs[:5]) or "ok"
    return False, "unknown replay kind"
