"""C09 — dimensionality is the rank of the periodic bonding network, however presented (Engine A, bounded).
The extension is replaced by ExtModel, the abstract behaviour Engine C establishes for the C++ sources."""
import itertools
from fractions import Fraction as F

import numpy as np
import z3

import matid.geometry.geometry as G
from lib.common import Report
from symx.engine import explore
from symx.values import SReal, SBool, Inf, zbool, const_array, eng
from symx.npproxy import NPProxy, patched, solve3
from symx.stubs import StubAtoms, concrete
from harness.sbc_common import dbscan_stub
from harness.C16 import AseProxy

PID = "C09"
NP = NPProxy()


def oracle_dim(numbers, pos, cell, pbc, radii, thr, K=None):
    """independent concrete oracle: union-find over periodic images with translation offsets; integer rank of the cycle lattice"""
    n = len(pos)
    pos, cell = np.array(pos, float), np.array(cell, float)
    if K is None:
        fr = np.linalg.solve(cell.T, pos.T).T
        K = int(np.ceil(np.abs(fr[:, None, :] - fr[None, :, :]).max())) + 4
    rng = [range(-K, K + 1) if pbc[k] else [0] for k in range(3)]
    offs = [np.array(o) for o in itertools.product(*rng)]
    parent = list(range(n))
    shift = [np.zeros(3, dtype=int) for _ in range(n)]     # offset of node relative to its root

    def find(a):
        off = np.zeros(3, dtype=int)
        while parent[a] != a:
            off = off + shift[a]
            a = parent[a]
        return a, off
    cycles = []
    for i in range(n):
        for j in range(i, n):
            for o in offs:
                if i == j and not o.any():
                    continue
                d = np.linalg.norm(pos[i] - pos[j] - o @ cell) - radii[i] - radii[j]
                if d <= thr:
                    # edge i(cell 0) -- j(cell o)
                    ri, oi = find(i)
                    rj, oj = find(j)
                    if ri != rj:
                        parent[rj] = ri
                        shift[rj] = oi - o - oj
                    else:
                        cyc = oi - o - oj
                        if cyc.any():
                            cycles.append(cyc)
    roots = {find(i)[0] for i in range(n)}
    if len(roots) > 1:
        return None
    if not cycles:
        return 0
    return int(np.linalg.matrix_rank(np.array(cycles, dtype=float)))


def conc_check(numbers, pos, cell, pbc, radii, thr):
    from ase import Atoms
    at = Atoms(numbers=numbers, positions=np.array(pos, float), cell=np.array(cell, float), pbc=pbc)
    ref = (at.get_positions().copy(), np.array(at.get_cell()).copy())
    try:
        got, clusters = G.get_dimensionality(at, thr, radii=np.array(radii, float), return_clusters=True)
    except Exception as ex:
        return [f"get_dimensionality raised {type(ex).__name__}: {ex}"]
    want = oracle_dim(numbers, pos, cell, pbc, radii, thr)
    msgs = []
    if got != want:
        msgs.append(f"get_dimensionality = {got}, periodic bonding network has {'several components' if want is None else 'rank ' + str(want)}")
    if not np.array_equal(ref[0], at.get_positions()):
        msgs.append("input modified")
    return msgs


class ExtModel:
    """matid.geometry.get_displacement_tensor(..., return_distances=True) as established by Engine C: per pair the minimum of
    |r_i - r_j - n.cell| over offsets with |n_k| <= ceil(cutoff / h_k) on periodic axes (the copies extend_system makes),
    reported iff <= cutoff, else +inf.  `lin`: distances along one lattice direction (|d| * |vector|, linear)."""

    def __init__(self, e, heights, lengths_along=None):
        self.e, self.calls, self.heights = e, [], heights

    def __call__(self, positions, cell=None, pbc=False, cutoff=float("inf"), return_factors=False, return_distances=False):
        e = self.e
        pos = np.asarray(positions, dtype=object)
        cellv = np.asarray(cell, dtype=object)
        pb = list(G.expand_pbc(pbc))
        n = len(pos)
        self.calls.append({"positions": pos.copy(), "cell": cellv.copy(), "pbc": pb, "cutoff": cutoff})
        # copies per periodic axis: ceil(cutoff / height); heights of the *given* cell (the 2x cell has doubled heights)
        f = solve3(cellv.T, pos.T).T
        scale = [cellv[k, k] / self.cell0[k][k] if True else 1 for k in range(3)]
        N = []
        for k in range(3):
            if not pb[k]:
                N.append(0)
                continue
            h = self.heights[k] * scale[k]
            N.append(int((cutoff / h).ceil()) if isinstance(cutoff, SReal) else int(np.ceil(float(cutoff) / float(h.cval() if isinstance(h, SReal) else h))))
        D = np.empty((n, n), dtype=object)
        for i in range(n):
            D[i, i] = SReal.const(0)
            for j in range(i + 1, n):
                best = None
                for o in itertools.product(*[range(-N[k], N[k] + 1) for k in range(3)]):
                    d = self.dist(f[i] - f[j] - np.array(o), cellv)
                    if best is None or bool(d < best):
                        best = d
                D[i, j] = D[j, i] = best if bool(best <= cutoff) else Inf()
        out = [const_array(np.zeros((n, n, 3)))]
        if return_factors:
            out.append(const_array(np.zeros((n, n, 3))))
        if return_distances:
            out.append(D)
        return out[0] if len(out) == 1 else tuple(out)

    def dist(self, df, cellv):
        """|df . cell| for fractional difference df: exact when it is along one orthogonal direction, else sqrt"""
        v = np.dot(df, cellv)
        nz = [c for c in range(3) if not (isinstance(v[c], SReal) and v[c].is_const() and v[c].cval() == 0)]
        if len(nz) <= 1:
            return abs(v[nz[0]]) if nz else SReal.const(0)
        return np.dot(v, v).sqrt()


# ------------------------------------------------------------------------------------ H09a: two atoms on a periodic line
def h09a(order):
    L = [3, 4, 5]

    def fn(e):
        cell0 = [[L[0], 0, 0], [0, L[1], 0], [0, 0, L[2]]]
        pbc = (True, False, False)
        fx = [e.real(f"f{i}", lo=0, hi=1, hi_strict=True) for i in range(2)]
        sh = [e.int(f"s{i}", -5, 5) for i in range(2)]
        y_ = e.real("y", lo=-2, hi=2)                               # common coordinate along a non-periodic axis, anywhere
        yo = [y_, y_]                                              # same height: bonds are along the line (linear distances)
        radii = np.array([e.real(f"r{i}", lo=F(1, 10), hi=3) for i in range(2)], dtype=object)
        thr = e.real("thr", lo=F(1, 10), hi=4)
        pos = np.array([[(fx[i] + sh[i]) * L[0], yo[i] * L[1], SReal.const(0)] for i in order], dtype=object)
        rad = np.array([radii[i] for i in order], dtype=object)
        numbers = [[6, 8][i] for i in order]
        system = StubAtoms(numbers=numbers, positions=pos, cell=const_array(cell0), pbc=pbc)
        ext = ExtModel(e, [SReal.const(L[0]), SReal.const(L[1]), SReal.const(L[2])])
        ext.cell0 = cell0
        exc = None
        with patched(G, np=NP, get_displacement_tensor=ext, ase=AseProxy), dbscan_stub():
            try:
                dim, clusters = G.get_dimensionality(system, thr, radii=rad, return_clusters=True)
            except Exception as ex:    # noqa: BLE001
                exc = ex

        def cex(env):
            fv = lambda x: float(concrete(np.array([x], dtype=object), env)[0])
            args = dict(numbers=numbers, pos=concrete(pos, env), cell=cell0, pbc=list(pbc), radii=[fv(x) for x in rad], thr=fv(thr))
            msgs = conc_check(**args)
            return {"key": f"H09a:{cex.label}", "what": f"two atoms on a periodic line, lattice shifts {[int(env.get('s0', 0)), int(env.get('s1', 0))]}: " + "; ".join(msgs[:2]),
                    "replay": dict(kind="dim", **args), "reproduced": bool(msgs)}

        def mk(label):
            def c(env):
                cex.label = label
                return cex(env)
            return c
        if exc is not None:
            e.post("get_dimensionality returns normally", False, mk(f"raises:{type(exc).__name__}"))
            return
        # oracle on the same path: bonds along the line with every offset (shift-invariant)
        x = [(fx[i] + sh[i]) * L[0] for i in range(2)]
        B = {}
        for nn in range(-13, 14):
            d = x[0] - x[1] - nn * L[0]
            B[nn] = z3.Or(z3.And(d.z3() >= 0, (d - radii[0] - radii[1]).z3() <= thr.z3()), z3.And(d.z3() < 0, (-d - radii[0] - radii[1]).z3() <= thr.z3()))
        connected = z3.Or(*B.values())
        selfb = [zbool(L[0] - 2 * radii[i] <= thr) for i in range(2)]
        periodic = z3.Or(*selfb, *[z3.And(B[a], B[b]) for a in B for b in B if a < b])
        got_none = dim is None
        e.post("None exactly when the bonding graph of the cell contents has more than one component", z3.BoolVal(got_none) == z3.Not(connected), mk("components"))
        if not got_none:
            e.post("value = number of independent lattice directions along which the network meets its own images", z3.If(periodic, z3.BoolVal(dim == 1), z3.BoolVal(dim == 0)), mk("rank"))
        want_clusters = 1 if not got_none else 2
        e.post("clusters are the connected components", sorted(map(sorted, clusters)) == ([[0, 1]] if not got_none else [[0], [1]]), mk("clusters"))
        # the table was asked for these atoms (modulo lattice vectors of periodic axes only)
        if ext.calls:
            p0 = ext.calls[0]["positions"]
            conds = []
            for i in range(2):
                d_ = (p0[i][0] - pos[i][0]) / L[0]
                conds.append(z3.IsInt(d_.z3()) if not d_.is_const() else z3.BoolVal(d_.cval().denominator == 1))
                conds.append(zbool(p0[i][1] == pos[i][1]))
                conds.append(zbool(p0[i][2] == pos[i][2]))
            e.post("distances are evaluated for the given atoms (shifted at most by lattice vectors of periodic axes)", z3.And(*conds), mk("positions"))
        e.reach("H09a:None" if got_none else f"H09a:dim{dim}")
        e.sample({"order": order, "result": dim})
    return fn


# ------------------------------------------------------------------------------------ H09c: two atoms, two periodic axes
def h09c(pbc, nsym):
    """two atoms inside an orthogonal cell (3,4,5), general position in the periodic plane; radii <= 4/5 and threshold <= 1 keep
    every bond within the neighbouring cells (|n| <= 1), so the oracle box is complete.  Polynomial real arithmetic (nlsat)."""
    L = [3, 4, 5]

    def fn(e):
        cell0 = [[L[0], 0, 0], [0, L[1], 0], [0, 0, L[2]]]
        per = [k for k in range(3) if pbc[k]]
        fr = np.empty((2, 3), dtype=object)
        for i in range(2):
            for k in range(3):
                fr[i, k] = e.real(f"g{i}_{k}", lo=0, hi=1, hi_strict=True) if (k in per[:nsym]) else SReal.const([F(1, 4), F(1, 3), F(1, 2)][k])
        radii = np.array([e.real(f"r{i}", lo=F(1, 5), hi=F(4, 5)) for i in range(2)], dtype=object)
        thr = e.real("thr", lo=F(1, 5), hi=1)
        pos = np.dot(fr, const_array(cell0))
        system = StubAtoms(numbers=[6, 8], positions=pos, cell=const_array(cell0), pbc=pbc)
        ext = ExtModel(e, [SReal.const(L[0]), SReal.const(L[1]), SReal.const(L[2])])
        ext.cell0 = cell0
        exc = None
        with patched(G, np=NP, get_displacement_tensor=ext, ase=AseProxy), dbscan_stub():
            try:
                dim, clusters = G.get_dimensionality(system, thr, radii=radii, return_clusters=True)
            except Exception as ex:    # noqa: BLE001
                exc = ex

        def cex(env):
            fv = lambda x: float(concrete(np.array([x], dtype=object), env)[0])
            args = dict(numbers=[6, 8], pos=concrete(pos, env), cell=cell0, pbc=list(pbc), radii=[fv(x) for x in radii], thr=fv(thr))
            msgs = conc_check(**args)
            return {"key": f"H09c:{cex.label}", "what": f"two atoms, pbc {list(pbc)}: " + "; ".join(msgs[:2]), "replay": dict(kind="dim", **args), "reproduced": bool(msgs)}

        def mk(label):
            def c(env):
                cex.label = label
                return cex(env)
            return c
        if exc is not None:
            e.post("get_dimensionality returns normally", False, mk(f"raises:{type(exc).__name__}"))
            return
        # on-path oracle: decide every candidate bond (forks), then a concrete rank
        reach = thr + radii[0] + radii[1]
        bonds01 = []
        for o in itertools.product(*[(-1, 0, 1) if pbc[k] else (0,) for k in range(3)]):
            v = [(fr[0, k] - fr[1, k] - o[k]) * L[k] for k in range(3)]
            d2 = sum(x * x for x in v)
            if bool(d2 <= reach * reach):
                bonds01.append(o)
        selfv = []
        for i in range(2):
            for o in itertools.product(*[(-1, 0, 1) if pbc[k] else (0,) for k in range(3)]):
                if any(o):
                    ln2 = sum((o[k] * L[k]) ** 2 for k in range(3))
                    rr = thr + 2 * radii[i]
                    if bool(rr * rr >= ln2):
                        selfv.append(o)
        connected = bool(bonds01)
        e.post("None exactly when the two atoms are not bonded through any image", (dim is None) == (not connected), mk("components"))
        if connected and dim is not None:
            vecs = [tuple(a - b for a, b in zip(o, bonds01[0])) for o in bonds01[1:]] + selfv
            vecs = [v for v in vecs if any(v)]
            rank = int(np.linalg.matrix_rank(np.array(vecs, dtype=float))) if vecs else 0
            e.post("value = rank of the lattice of cycles of the periodic bonding network", dim == rank, mk("rank"))
            e.reach(f"H09c:dim{dim}")
        else:
            e.reach("H09c:None")
        e.sample({"pbc": list(pbc), "symbolic_coordinates_per_atom": nsym, "bonds": bonds01, "result": dim})
    return fn


# ------------------------------------------------------------------------------------ H09b: one atom, every pbc
def h09b(cellname, pbc):
    from lib import cells as CELLS
    cellq = CELLS.FAMILY[cellname]

    def fn(e):
        cell0 = [[F(v) for v in row] for row in cellq]
        r = e.real("r", lo=F(1, 10), hi=4)
        thr = e.real("thr", lo=F(1, 10), hi=4)
        fr = e.real_array("f", (1, 3), lo=-3, hi=3)
        pos = np.dot(fr, const_array(cell0))
        system = StubAtoms(numbers=[6], positions=pos, cell=const_array(cell0), pbc=pbc)
        C = np.array([[float(v) for v in row] for row in cell0])
        V = abs(np.linalg.det(C))
        heights = [SReal.const(F(V / np.linalg.norm(np.cross(C[(k + 1) % 3], C[(k + 2) % 3]))).limit_denominator(10 ** 9)) for k in range(3)]

        class Ext1(ExtModel):
            def dist(self, df, cellv):
                # differences between images of one atom are lattice vectors: concrete lengths
                v = np.dot(df, cellv)
                vals = [float(c.cval()) if isinstance(c, SReal) else float(c) for c in v]
                return SReal.const(F(float(np.linalg.norm(vals))).limit_denominator(10 ** 12))
        ext = Ext1(e, heights)
        ext.cell0 = cell0
        exc = None
        with patched(G, np=NP, get_displacement_tensor=ext, ase=AseProxy), dbscan_stub():
            try:
                dim, clusters = G.get_dimensionality(system, thr, radii=np.array([r], dtype=object), return_clusters=True)
            except Exception as ex:    # noqa: BLE001
                exc = ex

        def cex(env):
            fv = lambda x: float(concrete(np.array([x], dtype=object), env)[0])
            args = dict(numbers=[6], pos=concrete(pos, env), cell=[[float(v) for v in row] for row in cell0], pbc=list(pbc), radii=[fv(r)], thr=fv(thr))
            msgs = conc_check(**args)
            return {"key": f"H09b:{cellname}:{''.join('T' if x else 'F' for x in pbc)}", "what": "one atom and its periodic images: " + "; ".join(msgs[:2]), "replay": dict(kind="dim", **args), "reproduced": bool(msgs)}
        if exc is not None:
            e.post("get_dimensionality returns normally", False, cex)
            return
        # oracle: lattice vectors v (|n_k| <= 3 on periodic axes) with |v| - 2r <= thr; rank of their span (decided per path
        # by forking on each bond, then a concrete rank)
        vecs = []
        for o in itertools.product(*[range(-3, 4) if pbc[k] else [0] for k in range(3)]):
            if not any(o):
                continue
            ln = F(float(np.linalg.norm(np.array(o) @ C))).limit_denominator(10 ** 12)
            if bool(ln - 2 * r <= thr):
                vecs.append(o)
        rank = int(np.linalg.matrix_rank(np.array(vecs, dtype=float))) if vecs else 0
        e.post("a single atom is one component", dim is not None and clusters == [[0]], cex)
        e.post("value = rank of the lattice vectors along which the atom bonds to its own images", dim == rank, cex)
        e.reach(f"H09b:dim{dim}")
        e.sample({"cell": cellname, "pbc": list(pbc), "result": dim})
    return fn


def main(tier, seed, only=None):
    from lib import cells as CELLS
    rep = Report(PID, tier, seed)
    for f in (G.get_dimensionality, G.get_clusters, G.get_radii):
        rep.function(f)
    jobs = [("H09a", f"H09a:order{o}", h09a(o)) for o in ([0, 1], [1, 0])]
    cells_b = ["ortho", "tricl"] if tier == "quick" else ["ortho", "tricl", "plate"]
    jobs += [("H09b", f"H09b:{c}:{''.join('T' if x else 'F' for x in pbc)}", h09b(c, pbc)) for c in cells_b for pbc in CELLS.PBCS]
    jobs += [("H09c", "H09c:TTF:1", h09c((True, True, False), 1))]
    if tier == "thorough":
        jobs += [("H09c", "H09c:TTT:1", h09c((True, True, True), 1)), ("H09c", "H09c:FTT:1", h09c((False, True, True), 1))]
    for fam, name, fn in jobs:
        if only and not any(name.startswith(o) for o in only):
            continue
        rep.merge_stats(explore(fn, name, timeout_ms=30000, budget_s=1200 if tier == "quick" else 4000, chunk_paths=20, logic="nra" if fam == "H09c" else "lira"), fam)
    if not only:
        rep.require_reached("H09a:None", "H09a:dim0", "H09a:dim1", "H09b:dim0", "H09b:dim1", "H09b:dim2", "H09b:dim3", "H09c:None", "H09c:dim0", "H09c:dim1")
    rep.bounds = {"H09a": "2 atoms at the same height on a line along one periodic axis of an orthogonal cell (pbc TFF): symbolic fractional coordinate, integer lattice shift |s|<=5 per atom, "
                          "symbolic coordinate along a non-periodic axis, symbolic radii in [0.1,3] and threshold in [0.1,4]; both atom orders",
                  "H09c": "2 atoms inside an orthogonal cell with 2 (thorough: also 3) periodic axes, one symbolic fractional coordinate per atom along a periodic axis, symbolic radii in [0.2,0.8] and threshold in [0.2,1] (bonds reach the neighbouring cells only), nlsat",
                  "H09b": "1 atom anywhere (fractional coordinates in [-3,3]), all 8 pbc combinations, cells " + str(cells_b) + ", symbolic radius and threshold; oracle offsets |n|<=3"}
    rep.stubs = ["ExtModel for matid.geometry.get_displacement_tensor (minimum over the offsets extend_system creates, reported iff <= cutoff) - the behaviour C10/C16 establish for the C++ sources",
                 "DBSCANStub", "StubAtoms", "ase.geometry.wrap_positions proxy"]
    rep.assumptions = ["exact real arithmetic", "C10/C16 for the extension"]
    rep.outside = ["2 atoms with two symbolic coordinates each under 2-3 periodic axes (z3 unknown on the disc constraints after ~100 decisions; 465 s for 4 paths)", "lattice shifts with more than one periodic axis", "n > 2 atoms",
                   "GF(2)-versus-integer rank discrepancies (need >= 3 atoms)"]
    return rep.finish()


def replay(d):
    dd = {k: v for k, v in d.items() if k != "kind"}
    msgs = conc_check(**dd)
    return bool(msgs), "; ".join(msgs[:4]) or "ok"
