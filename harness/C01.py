"""C01 — SBC returns a well-formed, disjoint, connected set of clusters (Engine A, region finder stubbed)."""
import numpy as np
import z3

import matid.geometry.geometry as G
import matid.clustering.sbc as SBCM
import matid.clustering.cluster as CLM
from matid.core.distances import Distances
from lib.common import Report
from symx.engine import explore
from symx.values import SReal, SBool, zbool, const_array
from symx.npproxy import NPProxy, patched
from symx.stubs import StubAtoms, concrete
from harness import sbc_common as SC

PID = "C01"
NP = NPProxy()


def fval(x, env):
    return float(concrete(np.array([x], dtype=object), env)[0])


# --------------------------------------------------------------------------------- H01a
def h01a(n, k):
    def fn(e):
        numbers, D, dist, system, radii, bt, clusters = SC.make_prestate(e, n, k)
        mt = e.real("merge_threshold", lo=0, hi=1)
        mr = e.real("merge_radius")
        index_sets = [list(c.indices) for c in clusters]
        s = SBCM.SBC()
        exc = None
        with patched(SBCM, np=NP), patched(G, np=NP), patched(CLM, np=NP), SC.dbscan_stub():
            try:
                out = s._merge_clusters(system, clusters, mt, dist, bt)
                out = s._localize_clusters(system, out, mr, dist)
                out = s._clean_clusters(out, bt)
            except Exception as ex:   # noqa: BLE001 - any exception of the code under test is a finding candidate
                exc = ex

        def cex(env):
            Dv = concrete(D, env)
            args = dict(numbers=numbers.tolist(), D=Dv, index_sets=index_sets, merge_threshold=fval(mt, env), merge_radius=fval(mr, env), bond_threshold=fval(bt, env))
            try:
                cl, *_ = SC.concrete_postprocess(numbers, Dv, index_sets, args["merge_threshold"], args["merge_radius"], args["bond_threshold"])
                msgs = SC.concrete_wellformed(cl, numbers, Dv, args["bond_threshold"])
            except Exception as ex:
                msgs = [f"raised {type(ex).__name__}: {ex}"]
            return {"key": f"H01a:{cex.label}", "what": "SBC post-processing (merge/localize/clean): " + "; ".join(msgs), "replay": dict(kind="postprocess", **args),
                    "reproduced": bool(msgs)}

        def mk(label):
            def c(env):
                cex.label = label
                return cex(env)
            return c
        if exc is not None:
            e.post("post-processing returns normally", False, mk(f"raises:{type(exc).__name__}"))
            e.sample({"n": n, "k": k, "exception": repr(exc)})
            return

        class E2:
            def post(self, label, cond, c):
                e.post(label, cond, mk(label))
        SC.wellformed_posts(E2(), out, numbers, D, bt, n, None)
        e.reach(f"H01a:k_out={len(out)}")
        if any(len(set(a) & set(b)) for i, a in enumerate(index_sets) for b in index_sets[i + 1:]):
            e.reach("H01a:overlapping-input")
        if any(list(a) != sorted(a) for a in index_sets):
            e.reach("H01a:descending-members")
        e.sample({"numbers": numbers.tolist(), "input_clusters": index_sets, "output_clusters": [sorted(int(x) for x in c.indices) for c in out]})

        def val(env):
            Dv = concrete(D, env)
            th = [fval(bt, env), fval(mr, env), 1.1 * fval(bt, env)]
            if any(abs(Dv[i, j] - t) < 1e-9 for i in range(n) for j in range(n) for t in th + [0.0]):
                return None
            if any(abs(fval(mt, env) - a / b) < 1e-9 for a in range(0, n + 1) for b in range(1, n + 1)):
                return None
            cl, *_ = SC.concrete_postprocess(numbers, Dv, index_sets, fval(mt, env), fval(mr, env), fval(bt, env))
            a = sorted(sorted(int(x) for x in c.indices) for c in cl)
            b = sorted(sorted(int(x) for x in c.indices) for c in out)
            return True if a == b else f"real post-processing gives {a}, symbolic run {b}"
        e.validate_with(val)
    return fn


# --------------------------------------------------------------------------------- H01b: whole get_clusters
CELLS_B = {
    "regular": ([[4, 0, 0], [1, 5, 0], [0, 0, 6]], None),
    "zero-c": ([[4, 0, 0], [1, 5, 0], [0, 0, 0]], 2),
    "zero-a": ([[0, 0, 0], [1, 5, 0], [0, 2, 6]], 0),
    # a sheet in the xy plane whose missing lattice vector is stored first: the zero row (0) and the zero Cartesian column (2) differ
    "zero-a-xy": ([[0, 0, 0], [4, 0, 0], [1, 5, 0]], 0),
}


class AseProxy:
    class geometry:
        @staticmethod
        def complete_cell(cell):
            import ase.geometry
            c = np.array([[float(v) for v in row] for row in np.asarray(cell, dtype=object)], dtype=float)
            return const_array(ase.geometry.complete_cell(c))


def h01b(cellname, n, unwrapped, mode="front"):
    """mode 'front': every pbc combination / cell / (un)wrapped symbolic positions with a finder that finds nothing
    (cell completion, scaling, wrapping, ValueError, immutability, seeding);  mode 'loop': fully periodic regular cell,
    every FinderStub answer, symbolic matrix (seed loop, cluster creation, post-processing)."""
    cell_q, zero_axis = CELLS_B[cellname]

    def fn(e):
        if mode == "front":
            pbc = e.pick([(a, b, c) for a in (False, True) for b in (False, True) for c in (False, True)])
            numbers = np.array(SC.SPECIES_PATTERNS[n][-1])
        else:
            pbc = (True, True, True)
            numbers = np.array(e.pick(SC.SPECIES_PATTERNS[n]))
        lo, hi = (-2, 3) if unwrapped else (0, 1)
        fr = e.real_array("f", (n, 3), lo=lo, hi=hi)
        cellc = const_array(cell_q)
        full = const_array(CELLS_B["regular"][0])
        pos = np.dot(fr, full)
        if zero_axis is not None:
            # atoms lie in the plane spanned by the two non-zero vectors
            fr2 = fr.copy()
            for i in range(n):
                fr2[i, zero_axis] = SReal.const(0)
            pos = np.dot(fr2, cellc)
        system = StubAtoms(numbers=numbers, positions=pos, cell=cellc, pbc=pbc)
        before = (system.positions.copy(), system.cell.copy(), system.pbc.copy(), system.numbers.copy())
        D = SC.sym_dist_matrix(e, n)
        bt = e.real("bond_threshold", lo=0, lo_strict=True)
        mt = e.real("merge_threshold", lo=0, hi=1)
        mr = e.real("merge_radius")
        seed_arg = 7
        log = {"rng_seeds": [], "choices": [], "regions": []}

        class Gen:
            def choice(self, a, size=None, **kw):
                a = list(a)
                k = e.choose(len(a))
                log["choices"].append(a[k])
                return [a[k]] if size else a[k]

        def default_rng(seed=None):
            log["rng_seeds"].append(seed)
            return Gen()

        class RandomProxy:
            def __getattr__(self, k):
                if k == "default_rng":
                    return default_rng
                raise AttributeError("only numpy.random.default_rng(seed) is modelled: " + k)

        class NP2(NPProxy):
            random = RandomProxy()

        class Finder:
            """FinderStub: None or a region with an arbitrary basis subset; mask arbitrary with mask[seed] = True"""

            def __init__(self, **kw):
                pass

            def get_region(self, system, seed_index=None, return_mask=False, **kw):
                m = len(system)
                mask = np.zeros(m, dtype=bool)
                for i in range(m):
                    mask[i] = True if (i == seed_index or mode == "front") else bool(e.choose(2))
                if mode != "front" and e.choose(2):
                    basis = [i for i in range(m) if e.choose(2)]
                    region = SC.Region(basis, len(log["regions"]))
                else:
                    region = None
                log["regions"].append((int(seed_index), None if region is None else sorted(region.get_basis_indices()), mask.tolist()))
                return (region, mask) if return_mask else region

        def fake_get_distances(sys_, radii="covalent"):
            log["dist_system_len"] = len(sys_)
            return Distances(None, None, None, D.copy())
        exc, out = None, None
        with patched(SBCM, np=NP2(), PeriodicFinder=Finder, ase=AseProxy), patched(G, np=NP), patched(CLM, np=NP), \
                patched(SBCM.matid.geometry, get_distances=fake_get_distances), SC.dbscan_stub():
            try:
                out = SBCM.SBC().get_clusters(system, merge_threshold=mt, merge_radius=mr, bond_threshold=bt, radii="covalent", seed=seed_arg)
            except ValueError as ex:
                exc = ex
            except Exception as ex:   # noqa: BLE001
                exc = ex
        zero_periodic = zero_axis is not None and pbc[zero_axis]

        def cex(env):
            text, bad = conc_get_clusters(cell_q, concrete(pos, env), numbers, pbc)
            rep = {"kind": "get_clusters", "cell": cell_q, "positions": concrete(pos, env), "numbers": numbers.tolist(), "pbc": list(pbc)}
            if not bad and exc is None:
                # second replay level: the real get_clusters / Cluster / numpy / sklearn with the path's finder answers and
                # seed choices scripted and the concrete distance matrix
                script = dict(kind="scripted", cell=cell_q, positions=concrete(pos, env), numbers=numbers.tolist(), pbc=list(pbc), D=concrete(D, env),
                              merge_threshold=fval(mt, env), merge_radius=fval(mr, env), bond_threshold=fval(bt, env), regions=log["regions"], choices=[int(x) for x in log["choices"]])
                text2, bad2 = conc_scripted(script)
                if bad2:
                    text, bad, rep = text2, True, script
            return {"key": f"H01b:{cex.label}", "what": text, "replay": rep, "reproduced": bad}

        def mk(label):
            def c(env):
                cex.label = label
                return cex(env)
            return c
        if exc is not None:
            e.post("only ValueError for a zero-length periodic cell vector may be raised", isinstance(exc, ValueError) and zero_periodic, mk(f"raises:{type(exc).__name__}"))
            e.reach("H01b:ValueError")
            e.sample({"cell": cellname, "pbc": list(pbc), "exception": repr(exc)})
            return
        e.post("ValueError raised for a zero-length periodic cell vector", not zero_periodic, mk("missing-ValueError"))
        e.post("input structure untouched", not system.mutations and all(
            (a is b) or (np.asarray(a).shape == np.asarray(b).shape and all(x is y or bool(x == y) for x, y in zip(np.ravel(a), np.ravel(b))))
            for a, b in zip(before, (system.positions, system.cell, system.pbc, system.numbers))), mk("input-mutated"))
        e.post("generator constructed from the seed argument", log["rng_seeds"] == [seed_arg], mk("rng-not-seeded"))

        class E2:
            def post(self, label, cond, c):
                e.post(label, cond, mk(label))
        SC.wellformed_posts(E2(), out, numbers, D, bt, n, None)
        e.post("every cluster exposes the prototype cell of a region", all(c.get_cell() is not None for c in out), mk("no-prototype-cell"))
        e.reach("H01b:returned")
        e.sample({"cell": cellname, "pbc": list(pbc), "numbers": numbers.tolist(), "finder_answers": log["regions"][:4],
                  "clusters": [sorted(int(x) for x in c.indices) for c in out]})
    return fn


def conc_get_clusters(cell, pos, numbers, pbc, seed=7):
    """public API on the real code: returns (text, violated)"""
    from ase import Atoms
    at = Atoms(numbers=numbers, positions=pos, cell=np.array(cell, dtype=float), pbc=pbc)
    ref = (at.get_positions().copy(), np.array(at.get_cell()).copy(), at.get_pbc().copy(), at.get_atomic_numbers().copy())
    zero_periodic = any(pbc[i] and not np.array(cell, dtype=float)[i].any() for i in range(3))
    try:
        a = SBCM.SBC().get_clusters(at, seed=seed)
        b = SBCM.SBC().get_clusters(at, seed=seed)
    except ValueError as ex:
        return f"ValueError: {ex}", not zero_periodic
    except Exception as ex:
        return f"raised {type(ex).__name__}: {ex}", True
    if zero_periodic:
        return "no ValueError for a zero-length periodic cell vector", True
    msgs = []
    if not (np.array_equal(ref[0], at.get_positions()) and np.array_equal(ref[1], np.array(at.get_cell())) and np.array_equal(ref[2], at.get_pbc())):
        msgs.append("input structure modified")
    if sorted(sorted(c.indices) for c in a) != sorted(sorted(c.indices) for c in b):
        msgs.append("two calls with the same seed differ")
    flat = [i for c in a for i in c.indices]
    if len(flat) != len(set(flat)) or any(len(c.indices) == 0 for c in a):
        msgs.append("clusters overlap or are empty")
    return "; ".join(msgs) or "ok", bool(msgs)


def conc_scripted(d):
    """real SBC.get_clusters with PeriodicFinder answers, seed choices and the distance matrix scripted"""
    from ase import Atoms
    numbers = np.array(d["numbers"])
    at = Atoms(numbers=numbers, positions=np.array(d["positions"], float), cell=np.array(d["cell"], float), pbc=d["pbc"])
    Dv = np.array(d["D"], float)
    answers = {int(s): (b, m) for s, b, m in d["regions"]}
    choices = list(d["choices"])

    class Finder:
        def __init__(self, **kw):
            pass

        def get_region(self, system, seed_index=None, return_mask=False, **kw):
            b, m = answers.get(int(seed_index), (None, [i == seed_index for i in range(len(system))]))
            region = None if b is None else SC.Region(b, int(seed_index))
            return (region, np.array(m, dtype=bool)) if return_mask else region

    class Gen:
        def choice(self, a, size=None, **kw):
            a = list(a)
            v = choices.pop(0) if choices and choices[0] in a else a[0]
            return [v] if size else v

    class NPR:
        def __getattr__(self, k):
            return getattr(np, k)

        class random:
            @staticmethod
            def default_rng(seed=None):
                return Gen()
    try:
        with patched(SBCM, PeriodicFinder=Finder, np=NPR()), patched(SBCM.matid.geometry, get_distances=lambda s, radii="covalent": Distances(None, None, None, Dv.copy())):
            out = SBCM.SBC().get_clusters(at, merge_threshold=d["merge_threshold"], merge_radius=d["merge_radius"], bond_threshold=d["bond_threshold"])
    except Exception as ex:
        return f"raised {type(ex).__name__}: {ex} (scripted finder)", True
    msgs = SC.concrete_wellformed(out, numbers, Dv, d["bond_threshold"])
    if any(c.get_cell() is None for c in out):
        msgs.append("cluster without prototype cell")
    return ("with the region finder's answers scripted " + str(d["regions"]) + ": " + "; ".join(msgs)) if msgs else "ok", bool(msgs)


# --------------------------------------------------------------------------------- driver
def main(tier, seed, only=None):
    rep = Report(PID, tier, seed)
    for f in (SBCM.SBC.get_clusters, SBCM.SBC._merge_clusters, SBCM.SBC._localize_clusters, SBCM.SBC._clean_clusters, CLM.Cluster, G.get_clusters):
        rep.function(f)
    if tier == "quick":
        jobs = [("H01a", f"H01a:n{n}:k{k}", h01a(n, k)) for n, k in ((3, 1), (4, 1), (2, 2), (3, 2), (3, 3))]
        jobs += [("H01b", "H01b:front:regular:n1:u", h01b("regular", 1, True, "front")), ("H01b", "H01b:front:regular:n2:w", h01b("regular", 2, False, "front"))]
        jobs += [("H01b", f"H01b:front:{c}:n2", h01b(c, 2, False, "front")) for c in CELLS_B if c != "regular"]
        jobs += [("H01b", "H01b:loop:n2", h01b("regular", 2, False, "loop"))]
    else:
        jobs = [("H01a", f"H01a:n{n}:k{k}", h01a(n, k)) for n, k in ((3, 1), (4, 1), (2, 2), (2, 3), (3, 2), (3, 3), (4, 2))]
        jobs += [("H01b", f"H01b:front:{c}:n{n}:w", h01b(c, n, False, "front")) for c in CELLS_B for n in (1, 2, 3)]
        jobs += [("H01b", f"H01b:front:regular:n{n}:u", h01b("regular", n, True, "front")) for n in (1, 2)]      # unwrapped: the cell gets symbolic (scaled by the atoms' span); n=3 did not finish in 80 min
        jobs += [("H01b", f"H01b:loop:n{n}", h01b("regular", n, False, "loop")) for n in (1, 2, 3)]
    for fam, name, fn in jobs:
        if only and not any(name.startswith(o) for o in only):
            continue
        rep.merge_stats(explore(fn, name, timeout_ms=20000, budget_s=1500 if tier == "quick" else 12000, chunk_paths=200, chunk_s=15, validate_every=20), fam)
    if not only:
        rep.require_reached("H01a:overlapping-input", "H01a:descending-members", "H01b:ValueError", "H01b:returned")
    rep.bounds = {"H01a": "k clusters over n atoms, (n,k) in " + ("(3,1),(4,1),(2,2),(3,2),(3,3)" if tier == "quick" else "(3,1),(4,1),(2,2),(2,3),(3,2),(3,3),(4,2)") + "; the first cluster's members listed ascending or descending" + "; arbitrary non-empty index sets, <=2 species, symbolic symmetric distance matrix, merge_threshold in [0,1], merge_radius, bond_threshold>0 symbolic",
                  "H01b": "whole get_clusters, n=2 (1 for unwrapped positions in the quick tier; 1..3 thorough) atoms; front: 8 pbc combinations x cells regular / zero third vector / zero first vector x (un)wrapped symbolic positions with a finder that finds nothing; loop: fully periodic regular cell with every FinderStub answer and a symbolic matrix"}
    rep.stubs = ["FinderStub for PeriodicFinder.get_region (None or arbitrary basis subset; arbitrary mask with mask[seed]=True)", "DBSCANStub (components of D<=eps)",
                 "get_distances -> arbitrary symbolic radii-corrected matrix (over-approximates the extension)", "numpy.random.default_rng -> nondeterministic choice, seed recorded",
                 "ase.geometry.complete_cell on concrete cells", "StubAtoms"]
    rep.assumptions = ["PeriodicFinder.get_region returns normally and marks the seed atom as tested"]
    rep.outside = ["that the prototype cell is periodic in 2 or 3 directions and that get_region returns normally (properties of PeriodicFinder, see C02 not-applicable)", "n > 4 atoms, k > 3 clusters"]
    return rep.finish()


def replay(d):
    if d["kind"] == "postprocess":
        try:
            cl, *_ = SC.concrete_postprocess(np.array(d["numbers"]), np.array(d["D"], float), d["index_sets"], d["merge_threshold"], d["merge_radius"], d["bond_threshold"])
            msgs = SC.concrete_wellformed(cl, np.array(d["numbers"]), np.array(d["D"], float), d["bond_threshold"])
        except Exception as ex:
            msgs = [f"raised {type(ex).__name__}: {ex}"]
        return bool(msgs), "; ".join(msgs) or "ok"
    if d["kind"] == "get_clusters":
        text, bad = conc_get_clusters(d["cell"], np.array(d["positions"], float), d["numbers"], d["pbc"])
        return bad, text
    if d["kind"] == "scripted":
        text, bad = conc_scripted(d)
        return bad, text
    return False, "unknown replay kind"
