"""C15 — the chirality flag is true exactly for the Sohncke groups (Engine A, `det` error contract)."""
import itertools
from fractions import Fraction as F

import numpy as np
import z3

import matid.symmetry.symmetryanalyzer as SA
from lib.common import Report
from symx.engine import explore
from symx.values import SReal, SBool, zbool, const_array, to_obj
from symx.npproxy import NPProxy, patched, det3
from symx.stubs import StubAtoms
from tables import refgroups as RG

PID = "C15"
DELTA = F(1, 2 ** 30)     # |float det - exact det| for unimodular integer matrices with small entries (re-measured each run)


class DetProxy(NPProxy):
    """np.linalg.det returns exact_det + delta with |delta| <= 2^-30, delta otherwise arbitrary (numpy computes
    sign*exp(sum log|u_ii|); no bit-exact SMT model exists)."""

    class _L(NPProxy.linalg.__class__):
        def det(self, A):
            from symx.values import eng
            e = eng()
            d = det3(to_obj(np.asarray(A)))
            k = next(e.fresh)
            dl = e.real(f"delta!{k}", lo=-DELTA, hi=DELTA)
            e.det_log.append((np.array(A, dtype=object), dl))
            return d + dl

    linalg = _L()


class Dataset(dict):
    def __getattr__(self, k):
        try:
            return self[k]
        except KeyError:
            raise AttributeError(k)


def make_analyzer(datasets):
    """Analyzer built through the real __init__/set_system on stub systems; spglib is replaced by a contract
    stub that hands out the dataset registered for the analysed system."""
    systems = [StubAtoms(numbers=[1], positions=[[0, 0, 0]], cell=np.eye(3) * (3 + i), pbc=True) for i in range(len(datasets))]
    table = {id(s): d for s, d in zip(systems, datasets)}
    holder = {}

    def fake_protect(fn, description, tol):
        return table[id(holder["an"]._analyzed_system)]
    return systems, fake_protect, holder


def measure_delta(n=20000, bound=4, seed=0):
    """re-measures the contract |float det - exact det| on n random unimodular integer matrices (products of elementary row
    operations, entries bounded) - the stub's only trusted number"""
    rng = np.random.default_rng(seed)
    worst, cnt, neq = 0.0, 0, 0
    while cnt < n:
        M = np.eye(3, dtype=np.int64)
        for _ in range(int(rng.integers(2, 9))):
            i, j = rng.choice(3, 2, replace=False)
            op = rng.integers(0, 3)
            if op == 0:
                M[i] = M[i] + int(rng.integers(-3, 4)) * M[j]
            elif op == 1:
                M[[i, j]] = M[[j, i]]
            else:
                M[i] = -M[i]
        if np.abs(M).max() > bound:
            continue
        ex = int(round(float(M[0, 0] * (M[1, 1] * M[2, 2] - M[1, 2] * M[2, 1]) - M[0, 1] * (M[1, 0] * M[2, 2] - M[1, 2] * M[2, 0]) + M[0, 2] * (M[1, 0] * M[2, 1] - M[1, 1] * M[2, 0]))))
        if abs(ex) != 1:
            continue
        cnt += 1
        err = abs(np.linalg.det(M.astype(float)) - ex)
        worst = max(worst, err)
        neq += err != 0
    return worst, neq / n


# ------------------------------------------------------------------------------- replay helpers
def real_is_chiral(rot_lists):
    """real numpy, real method, datasets injected; one analyzer, consecutive set_system calls"""
    from ase import Atoms
    out = []
    systems = [Atoms("H", positions=[[0, 0, 0]], cell=np.eye(3) * (3 + i), pbc=True) for i in range(len(rot_lists))]
    table = {}
    holder = {}

    def fake_protect(fn, description, tol):
        return table[id(holder["an"]._analyzed_system)]
    for s, rots in zip(systems, rot_lists):
        table[id(s)] = Dataset(rotations=np.array(rots, dtype=np.intc), translations=np.zeros((len(rots), 3)), number=0)
    with patched(SA, segfault_protect=fake_protect):
        an = SA.SymmetryAnalyzer(systems[0])
        holder["an"] = an
        out.append(an.get_is_chiral())
        for s in systems[1:]:
            an.set_system(s)
            out.append(an.get_is_chiral())
    return out


UNIMODULAR = [np.eye(3, dtype=int), np.array([[1, 1, 0], [0, 1, 1], [1, 2, 2]]), np.array([[1, 0, 0], [2, 1, 0], [-1, 3, 1]]),
              np.array([[2, 1, 0], [1, 1, 0], [0, 0, 1]]), np.array([[1, 2, 3], [0, 1, 4], [0, 0, 1]]), np.array([[0, 1, 0], [0, 0, 1], [1, 0, 0]]),
              np.array([[1, -2, 1], [1, -1, 0], [2, 0, -1]]) if round(np.linalg.det(np.array([[1, -2, 1], [1, -1, 0], [2, 0, -1]]))) in (1, -1) else np.eye(3, dtype=int),
              np.array([[3, 2, 0], [4, 3, 0], [1, 1, 1]]), np.array([[1, 4, 0], [0, 1, 0], [5, 0, 1]]), np.array([[2, 3, 1], [1, 2, 1], [1, 1, 1]])]
UNIMODULAR = [P for P in UNIMODULAR if abs(round(np.linalg.det(P))) == 1]


def crystal_confirmation(max_tries=60):
    """public-API search: a crystal of an achiral group in a sheared basis whose flag is True (or vice versa)"""
    from ase import Atoms
    import spglib
    for sg in (6, 8, 25, 99, 156, 183, 215, 2, 10):
        ops = RG.group_ops(sg)
        lat = RG.generic_lattice(RG.ref_crystal_system(sg))
        pts = [(0.137, 0.291, 0.419), (0.211, 0.347, 0.463)]
        pos, nums = [], []
        for z, p in zip((6, 8), pts):
            seen = []
            for R, t in ops:
                q = (np.array(R) @ np.array(p) + np.array([float(x) for x in t])) % 1
                if not any(np.allclose((q - s + 0.5) % 1 - 0.5, 0, atol=1e-6) for s in seen):
                    seen.append(q)
            pos += seen
            nums += [z] * len(seen)
        base = Atoms(numbers=nums, scaled_positions=pos, cell=lat, pbc=True)
        for P in UNIMODULAR:
            cell = P @ lat
            at = Atoms(numbers=nums, positions=base.get_positions(), cell=cell, pbc=True)
            at.wrap()
            an = SA.SymmetryAnalyzer(at, symmetry_tol=1e-4)
            try:
                if an.get_space_group_number() != sg:
                    continue
                flag = an.get_is_chiral()
            except Exception:
                continue
            if flag != RG.is_sohncke(sg):
                return {"space_group": sg, "basis_change": P.tolist(), "numbers": nums, "cell": cell.tolist(), "positions": at.get_positions().tolist(),
                        "get_is_chiral": bool(flag), "sohncke": RG.is_sohncke(sg)}
    return None


def conc_check(rot_lists):
    got = real_is_chiral(rot_lists)
    want = [all(round(float(np.linalg.det(np.array(R, dtype=float)))) == 1 for R in rots) for rots in rot_lists]
    exact = []
    for rots in rot_lists:
        ok = True
        for R in rots:
            R = [[int(v) for v in row] for row in R]
            if RG.det3(R) == -1:
                ok = False
        exact.append(ok)
    return got, exact


# ------------------------------------------------------------------------------- H15a: symbolic integer matrices
def h15a(k, bound):
    def fn(e):
        e.det_log = []
        mats = []
        for m in range(k):
            M = np.empty((3, 3), dtype=object)
            for i in range(3):
                for j in range(3):
                    M[i, j] = e.int(f"r{m}_{i}_{j}", -bound, bound)
            d = det3(M)
            e.assume(z3.Or(d.eqz(1), d.eqz(-1)))
            mats.append(M)
        ds = Dataset(rotations=np.array(mats, dtype=object), translations=const_array(np.zeros((k, 3))), number=0)
        systems, fake_protect, holder = make_analyzer([ds])
        with patched(SA, np=DetProxy(), segfault_protect=fake_protect):
            an = SA.SymmetryAnalyzer(systems[0])
            holder["an"] = an
            res = an.get_is_chiral()
            res2 = an.get_is_chiral()
        res = zbool(res) if isinstance(res, SBool) else z3.BoolVal(bool(res))
        want = z3.And(*[det3(M).eqz(1) for M in mats])

        def cex(env):
            rots = [[[int(env[f"r{m}_{i}_{j}"]) for j in range(3)] for i in range(3)] for m in range(k)]
            got, exact = conc_check([rots])
            rep = {"kind": "matrices", "rotations": [rots]}
            reproduced = got != exact
            if not reproduced:
                # the det contract is loose: look for a matrix family member on which real numpy does differ
                for P in UNIMODULAR:
                    Pi = np.round(np.linalg.inv(P)).astype(int)
                    rr = [(Pi @ np.array(R) @ P).tolist() for R in rots]
                    g2, e2 = conc_check([rr])
                    if g2 != e2:
                        rep, got, exact, reproduced = {"kind": "matrices", "rotations": [rr]}, g2, e2, True
                        break
            if reproduced:
                c = crystal_confirmation()
                if c:
                    rep["crystal"] = c
            return {"key": "H15a:flag!=no-improper-operation", "what": f"get_is_chiral returned {got} for operations whose exact determinants say {exact}",
                    "replay": rep, "reproduced": reproduced}
        e.post("flag <=> no operation has determinant -1", res == want, cex)
        e.post("repeated call gives the same answer", bool(res2) == bool(z3.is_true(z3.simplify(res))) if not isinstance(res2, SBool) else True, None)
        e.reach("H15a")
        e.sample({"matrices": k, "entry_bound": bound})

        def val(env):
            rots = [[[int(env[f"r{m}_{i}_{j}"]) for j in range(3)] for i in range(3)] for m in range(k)]
            got, exact = conc_check([rots])
            # the symbolic run took some delta; the real one has its own.  Only the contract is checked here:
            for R in rots:
                if abs(np.linalg.det(np.array(R, dtype=float)) - RG.det3(R)) > float(DELTA):
                    return f"float determinant error exceeds the contract bound for {R}"
            return True
        e.validate_with(val)
    return fn


# ------------------------------------------------------------------------------- H15b: all 230 groups x basis changes
def h15b(sgs, bases):
    def fn(e):
        e.det_log = []
        sg = sgs[e.choose(len(sgs))]
        P = bases[e.choose(len(bases))]
        Pi = np.round(np.linalg.inv(P)).astype(int)
        rots = [(Pi @ np.array(R) @ P) for R, t in RG.group_ops(sg)]
        # rotations "in the basis of the input cell" (row convention of the cell does not matter for the determinant)
        order = list(range(len(rots)))
        rot_sets = [rots, rots[::-1]]
        dsl = [Dataset(rotations=np.array(rs, dtype=object), translations=const_array(np.zeros((len(rs), 3))), number=sg) for rs in rot_sets]
        systems, fake_protect, holder = make_analyzer(dsl)
        with patched(SA, np=DetProxy(), segfault_protect=fake_protect):
            an = SA.SymmetryAnalyzer(systems[0])
            holder["an"] = an
            res = [an.get_is_chiral()]
            an.set_system(systems[1])
            res.append(an.get_is_chiral())
        want = RG.is_sohncke(sg)

        def cex(env):
            got, exact = conc_check([[r.tolist() for r in rs] for rs in rot_sets])
            rep = {"kind": "matrices", "rotations": [[r.tolist() for r in rs] for rs in rot_sets], "space_group": sg}
            reproduced = got != [want, want]
            if reproduced:
                c = crystal_confirmation()
                if c:
                    rep["crystal"] = c
            return {"key": f"H15b:sg{sg}", "what": f"space group {sg} (Sohncke={want}) in basis {P.tolist()}: get_is_chiral returned {got}",
                    "replay": rep, "reproduced": reproduced}
        for r in res:
            e.post("flag == group is Sohncke", (zbool(r) if isinstance(r, SBool) else z3.BoolVal(bool(r))) == z3.BoolVal(want), cex)
        e.reach("H15b")
        e.sample({"space_group": sg, "basis_change": P.tolist(), "operations": len(rots), "sohncke": want})
    return fn


# ------------------------------------------------------------------------------- H15c: analyzer reuse (sequence)
def h15c(e):
    e.det_log = []
    I = np.eye(3, dtype=int)
    m = np.diag([1, 1, -1])
    two = np.diag([-1, -1, 1])
    cases = [([I, m], False), ([I, two], True), ([I, -I], False), ([I], True)]
    a = e.choose(len(cases))
    b = e.choose(len(cases))
    dsl = [Dataset(rotations=np.array(cases[i][0], dtype=object), translations=const_array(np.zeros((len(cases[i][0]), 3))), number=0) for i in (a, b)]
    systems, fake_protect, holder = make_analyzer(dsl)
    with patched(SA, np=DetProxy(), segfault_protect=fake_protect):
        an = SA.SymmetryAnalyzer(systems[0])
        holder["an"] = an
        r1 = an.get_is_chiral()
        an.set_system(systems[1])
        r2 = an.get_is_chiral()

    def cex(env):
        got = real_is_chiral([[r.tolist() for r in cases[a][0]], [r.tolist() for r in cases[b][0]]])
        return {"key": "H15c:analyzer-reuse", "what": f"one analyzer, two systems: get_is_chiral gave {got}, expected {[cases[a][1], cases[b][1]]}",
                "replay": {"kind": "matrices", "rotations": [[r.tolist() for r in cases[a][0]], [r.tolist() for r in cases[b][0]]]},
                "reproduced": got != [cases[a][1], cases[b][1]]}
    e.post("first system", (zbool(r1) if isinstance(r1, SBool) else z3.BoolVal(bool(r1))) == z3.BoolVal(cases[a][1]), cex)
    e.post("second system after set_system", (zbool(r2) if isinstance(r2, SBool) else z3.BoolVal(bool(r2))) == z3.BoolVal(cases[b][1]), cex)
    e.sample({"first": a, "second": b})


def main(tier, seed, only=None):
    rep = Report(PID, tier, seed)
    for f in (SA.SymmetryAnalyzer.get_is_chiral, SA.SymmetryAnalyzer.get_symmetry_operations, SA.SymmetryAnalyzer.set_system, SA.SymmetryAnalyzer.reset):
        rep.function(f)
    worst, frac = measure_delta(20000 if tier == "quick" else 100000, 4 if tier == "quick" else 16, seed)
    rep.extra["det_contract"] = {"assumed_bound": float(DELTA), "measured_worst_error": worst, "fraction_of_matrices_with_nonzero_error": frac}
    if worst > float(DELTA):
        rep.harness_errors.append(f"det contract violated by numpy itself: {worst}")
    jobs = [("H15a", "H15a:k1", h15a(1, 2 if tier == "quick" else 4), 16), ("H15a", "H15a:k2", h15a(2, 1 if tier == "quick" else 2), 16)]
    bases = UNIMODULAR[:3] if tier == "quick" else UNIMODULAR
    jobs.append(("H15b", "H15b", h15b(list(range(1, 231)), bases), 16))
    jobs.append(("H15c", "H15c", h15c, 4))
    for fam, name, fn, w in jobs:
        if only and not any(name.startswith(o) for o in only):
            continue
        rep.merge_stats(explore(fn, name, workers=w, timeout_ms=20000, budget_s=600 if tier == "quick" else 2400), fam)
    rep.bounds = {"H15a": "k<=2 symbolic integer matrices, |entries|<=2 (k=1) / <=1 (k=2) quick; <=4 / <=2 thorough; exact det = +-1",
                  "H15b": f"all 230 groups x {len(bases)} unimodular basis changes x operation order forward/reversed, one delta per determinant",
                  "H15c": "one analyzer reused through set_system over 4x4 dataset pairs", "det": "exact_det + delta, |delta| <= 2^-30"}
    rep.stubs = ["np.linalg.det = exact determinant + bounded error (contract)", "spglib dataset injected through segfault_protect (SpglibContract: rotations given in the input basis)",
                 "StubAtoms for the analysed system"]
    rep.assumptions = ["spglib returns the rotations of the group in the basis of the input cell", f"|float det - exact det| <= 2^-30 (measured worst {worst:.3g})"]
    rep.outside = ["spglib's own group detection", "matrix entries beyond the stated bounds in the fully symbolic harness (the per-group harness uses the real matrices)"]
    return rep.finish()


def replay(d):
    rot_lists = d["rotations"]
    got, exact = conc_check(rot_lists)
    if "space_group" in d:
        exact = [RG.is_sohncke(d["space_group"])] * len(rot_lists)
    text = f"get_is_chiral on the recorded operations: {got}; exact determinants say {exact}"
    if d.get("crystal"):
        c = d["crystal"]
        from ase import Atoms
        at = Atoms(numbers=c["numbers"], positions=c["positions"], cell=c["cell"], pbc=True)
        an = SA.SymmetryAnalyzer(at, symmetry_tol=1e-4)
        f = an.get_is_chiral()
        text += f"; crystal of space group {an.get_space_group_number()} (Sohncke={c['sohncke']}): get_is_chiral() = {f}"
        return (got != exact) or (f != c["sohncke"]), text
    return got != exact, text
