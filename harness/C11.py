"""C11 — 2D materials get a vacuum-, orientation- and labelling-independent normal form (Engine A; spglib by contract)."""
import itertools
from fractions import Fraction as F

import numpy as np
import z3

import matid.symmetry.symmetryanalyzer as SA
import matid.geometry.geometry as G
from lib.common import Report
from symx.engine import explore
from symx.values import SReal, SBool, zbool, const_array
from symx.npproxy import NPProxy, patched, solve3, det3
from symx.stubs import StubAtoms, concrete
from harness import sym_common as S
from tables import refgroups as RG

PID = "C11"
NP = NPProxy()


# ---------------------------------------------------------------------------------- H11a: set_system (vacuum padding)
def h11a(i_np, n):
    def fn(e):
        # periodic vectors arbitrary rational, the non-periodic one perpendicular to them with rational length
        base = {0: [[0, 0, 7], [3, 1, 0], [-1, 4, 0]], 1: [[3, 0, 1], [0, 6, 0], [-1, 0, 4]], 2: [[3, 1, 0], [-1, 4, 0], [0, 0, 5]]}[i_np]
        L = e.real("len", lo=F(1, 2), hi=40)
        cell = const_array(base)
        unit = np.array([SReal.const(F(v, int(np.linalg.norm(base[i_np])))) for v in base[i_np]], dtype=object)
        cell[i_np] = unit * L
        fr = e.real_array("f", (n, 3), lo=-1, hi=2)
        pos = np.dot(fr, cell)
        pbc = [True, True, True]
        pbc[i_np] = False
        system = StubAtoms(numbers=[6, 8, 6][:n], positions=pos, cell=cell, pbc=pbc)
        before = (system.positions.copy(), system.cell.copy(), system.pbc.copy())
        with patched(SA, np=NP), patched(G, np=NP):
            an = SA.SymmetryAnalyzer.__new__(SA.SymmetryAnalyzer)
            SA.SymmetryAnalyzer.__init__(an, system)
        a = an._analyzed_system

        def cex(env):
            from ase import Atoms
            c, p = concrete(cell, env), concrete(pos, env)
            at = Atoms(numbers=[6, 8, 6][:n], positions=p, cell=c, pbc=pbc)
            an2 = SA.SymmetryAnalyzer(at)
            b = an2._analyzed_system
            c2 = np.array(b.get_cell())
            f = np.linalg.solve(c.T, p.T).T[:, i_np]
            thick = (f.max() - f.min()) * np.linalg.norm(c[i_np])
            want = max(5.0, 3 * thick)
            msgs = []
            if not all(np.allclose(c2[k], c[k]) for k in range(3) if k != i_np):
                msgs.append("periodic cell vectors changed")
            if abs(np.linalg.norm(c2[i_np]) - want) > 1e-6 * want or np.linalg.norm(np.cross(c2[i_np], c[i_np])) > 1e-6 or np.dot(c2[i_np], c[i_np]) <= 0:
                msgs.append(f"vacuum vector has length {np.linalg.norm(c2[i_np]):.6g}, expected max(5, 3*thickness) = {want:.6g} along the old direction")
            if not np.allclose(b.get_positions(), p) or not np.allclose(at.get_positions(), p) or not np.allclose(np.array(at.get_cell()), c):
                msgs.append("atoms moved / input modified")
            return {"key": f"H11a:{cex.label}", "what": "set_system on a 2D input: " + "; ".join(msgs), "replay": {"kind": "set_system", "cell": c, "positions": p, "pbc": pbc}, "reproduced": bool(msgs)}

        def mk(label):
            def c_(env):
                cex.label = label
                return cex(env)
            return c_
        e.post("analysed copy, input untouched", a is not system and not system.mutations and all(all(x is y or bool(x == y) for x, y in zip(np.ravel(u), np.ravel(v))) for u, v in zip(before, (system.positions, system.cell, system.pbc))), mk("input"))
        c2 = a.get_cell()
        e.post("periodic vectors kept", z3.And(*[zbool(c2[k, j] == cell[k, j]) for k in range(3) if k != i_np for j in range(3)]), mk("periodic-vectors"))
        cr = np.cross(c2[i_np], cell[i_np])
        e.post("vacuum vector parallel to the old non-periodic vector", z3.And(*[v.eqz() for v in cr], np.dot(c2[i_np], cell[i_np]).rel(lambda x, y: x > y)), mk("direction"))
        fz = fr[:, i_np]
        L2 = np.dot(c2[i_np], c2[i_np])
        E = [((fz[i] - fz[j]) * (fz[i] - fz[j])) * (L * L) * 9 for i in range(n) for j in range(n)]
        e.post("vacuum length = max(5, 3 * thickness)", z3.And(L2.rel(lambda x, y: x >= y, 25), *[L2.rel(lambda x, y: x >= y, v) for v in E], z3.Or(L2.eqz(25), *[L2.eqz(v) for v in E])), mk("length"))
        e.post("atoms not moved, pbc kept", z3.And(*[zbool(a.positions[i, k] == pos[i, k]) for i in range(n) for k in range(3)]) if list(a.get_pbc()) == pbc else False, mk("atoms"))
        e.reach("H11a")
        e.sample({"non_periodic_axis": i_np, "atoms": n})
    return fn


# ---------------------------------------------------------------------------------- H11b: conventional system of a layer
# layer-compatible standard settings: (space group, index of the std axis normal to the layer, occupation, parameter that is the
# coordinate along the normal per orbit (or None))
LAYERS = [
    (1, 2, [("a", 6)], ["z"]),
    (1, 2, [("a", 6), ("a", 8)], ["z", "z"]),
    (6, 1, [("a", 6), ("c", 8)], [None, "y"]),
    (47, 2, [("a", 6), ("q", 8)], [None, "z"]),
    (47, 0, [("a", 6), ("u", 8)], [None, "x"]),
    (47, 1, [("a", 6), ("w", 8)], [None, "y"]),
    (123, 2, [("a", 6), ("g", 8)], [None, "z"]),
    (191, 2, [("c", 6), ("e", 8)], [None, "z"]),
    (187, 2, [("a", 42), ("h", 16)], [None, "z"]),
    (156, 2, [("a", 5), ("b", 7)], ["z", "z"]),          # polar layer (buckled hBN type): the height in the cell is free
]


def layer_lattice(sg, k_std):
    """standardized lattice with the layer normal along the cartesian axis k_std (rational lengths)"""
    system = RG.ref_crystal_system(sg)
    if system in ("trigonal", "hexagonal"):
        a = F(3)
        return [[a, 0, 0], [-a / 2, "s3", 0], [0, 0, F(20)]]
    lens = {"triclinic": (F(3), F(4), F(20)), "monoclinic": (F(3), F(20), F(5)), "orthorhombic": (F(3), F(4), F(5)), "tetragonal": (F(3), F(3), F(20))}[system]
    lens = list(lens)
    if system == "orthorhombic":
        lens[k_std] = F(20)
    if system == "triclinic":
        return [[3, 0, 0], [1, 4, 0], [0, 0, 20]]
    return [[lens[0], 0, 0], [0, lens[1], 0], [0, 0, lens[2]]]


TMATS = {
    # transformation matrices (std = P.orig) mapping the original non-periodic axis i_np onto the std normal k_std; the other
    # two axes by a permutation, a sign change or an in-plane shear
    "perm": lambda i_np, k_std, var: None,
}


def transformation_matrix(i_np, k_std, variant):
    others_o = [k for k in range(3) if k != i_np]
    others_s = [k for k in range(3) if k != k_std]
    P = np.zeros((3, 3))
    P[k_std, i_np] = [1, -1, F(1, 2)][variant % 3] if variant < 3 else 1
    blocks = [[[1, 0], [0, 1]], [[0, 1], [1, 0]], [[1, 1], [0, 1]], [[0, -1], [1, 0]]]
    B = blocks[variant % 4]
    for a in range(2):
        for b in range(2):
            P[others_s[a], others_o[b]] = B[a][b]
    return P


def h11b(layer_idx, i_np, variant, min_thickness_sym=True):
    sg, k_std, occ, normal_params = LAYERS[layer_idx]

    def fn(e):
        sup = e.pick([False, "interleaved"]) if len({l for l, _ in occ}) > 1 else False
        ds = S.make_dataset(e, sg, occ, orig_supercell=sup)
        # thin slab: the atoms span at most 1/8 of the standardized cell along the normal (vacuum >= 3 x thickness in the
        # analysed cell).  Where the symmetry pins an orbit to height 0 the free heights are small parameters; in a polar
        # layer (every height free) the slab may sit at any height h .. h + 1/8 of the cell.
        free = [prm["xyz".index(which)] for prm, which in zip(ds["_params"], normal_params) if which is not None]
        free = [v for v in free if isinstance(v, SReal) and not v.is_const()]
        if all(which is not None for which in normal_params):
            for v1 in free:
                for v2 in free:
                    if v1 is not v2:
                        e.assume((v1 - v2).rel(lambda a, b: a <= b, F(1, 8)))
        else:
            for v in free:
                e.assume(v.rel(lambda a, b: a <= b, F(1, 8)))
        lat = layer_lattice(sg, k_std)
        if any(isinstance(v, str) for row in lat for v in row):
            s3 = SReal.sym("sqrt_3_1")
            e.assume(z3.And(s3.z3() > 0, s3.z3() * s3.z3() == 3), tag="sqrt_3_1")
            e.sqrt_defs["sqrt_3_1"] = __import__("symx.values", fromlist=["P"]).P.const(3)
            lat = [[(s3 * F(3, 2) if v == "s3" else SReal.const(F(v))) for v in row] for row in lat]
            ds["std_lattice"] = np.array(lat, dtype=object)
        else:
            ds["std_lattice"] = const_array(lat)
        ds["transformation_matrix"] = np.array(transformation_matrix(i_np, k_std, variant), dtype=float)
        mt = e.real("min_2d_thickness", lo=F(1, 10), hi=6)
        pbc = [True, True, True]
        pbc[i_np] = False
        n = len(ds.std_types)
        # the original system: any structure with this periodicity (the dataset is spglib's answer for it by contract); with
        # `sup` it has two atoms per standardized atom (an in-plane supercell, the copies listed next to each other)
        ocell = [[3, 0, 0], [0, 4, 0], [0, 0, 5]]
        n_o = len(ds["orig_types"])
        osys = StubAtoms(numbers=np.array(ds["orig_types"]), scaled_positions=const_array(np.full((n_o, 3), 0.25)), cell=const_array(ocell), pbc=pbc)
        ses = S.Session([ds])
        ses.systems = [osys]
        ses.table = {id(osys): ds}
        w_log = {}

        def com_contract(system):
            """periodic centre of mass: along the layer normal it lies within a quarter cell of every atom (the atoms span less
            than a quarter of the analysed cell) and between the lowest and the highest atom; the other components are
            irrelevant to the caller"""
            f = system.get_scaled_positions(wrap=True)
            m = e.real("com_normal", lo=0, hi=1, hi_strict=True)
            above, below = [], []
            for i in range(len(f)):
                d = f[i][w_log["k"]] - m
                e.assume(z3.Or(*[z3.And((d - kk).z3() <= z3.RealVal("1/4"), (d - kk).z3() >= z3.RealVal("-1/4")) for kk in (-1, 0, 1)]))
                above.append(z3.Or(*[z3.And((d - kk).z3() <= z3.RealVal("1/4"), (d - kk).z3() >= 0) for kk in (-1, 0, 1)]))
                below.append(z3.Or(*[z3.And((d - kk).z3() <= 0, (d - kk).z3() >= z3.RealVal("-1/4")) for kk in (-1, 0, 1)]))
            # ... and inside the arc the atoms span (a circular mean of points on less than a half circle lies between them)
            e.assume(z3.And(z3.Or(*above), z3.Or(*below)))
            cm = np.array([SReal.const(F(1, 3)), SReal.const(F(1, 5)), SReal.const(F(1, 7))], dtype=object)
            cm[w_log["k"]] = m
            w_log["f"] = f
            return np.dot(cm, system.get_cell())
        w_log["k"] = k_std
        exc = None
        with ses.active(), patched(SA.matid.geometry, get_center_of_mass=com_contract):
            try:
                an = ses.start(min_2d_thickness=mt)
                conv = an.get_conventional_system()
                letters = an.get_wyckoff_letters_conventional()
                key = S.tkey(np.asarray(an._best_transform["transformation"]))
            except Exception as ex:      # noqa: BLE001
                exc = ex

        def cex(env):
            msgs = conc_layer(sg, k_std, occ, [[float(S.concrete(np.array([x], dtype=object), env)[0]) if isinstance(x, SReal) else float(x) for x in p] for p in ds["_params"]],
                              i_np, variant, float(S.concrete(np.array([mt], dtype=object), env)[0]), sup)
            return {"key": f"H11b:{cex.label}", "what": f"layer in space group {sg} (normal = std axis {k_std}), original non-periodic axis {i_np}, transformation variant {variant}: " + "; ".join(msgs[:3]),
                    "replay": {"kind": "layer", "layer": layer_idx, "i_np": i_np, "variant": variant, "min_2d_thickness": float(S.concrete(np.array([mt], dtype=object), env)[0]), "supercell": sup,
                               "params": [[float(S.concrete(np.array([x], dtype=object), env)[0]) if isinstance(x, SReal) else float(x) for x in p] for p in ds["_params"]]},
                    "reproduced": bool(msgs)}

        def mk(label):
            def c_(env):
                cex.label = label
                return cex(env)
            return c_
        if exc is not None:
            e.post("conventional system of the layer is returned normally", False, mk(f"raises:{type(exc).__name__}"))
            return
        e.post("periodic in (a, b) only", list(conv.get_pbc()) == [True, True, False], mk("pbc"))
        cell = conv.get_cell()
        std = ds["std_lattice"]
        inpl = [k for k in range(3) if k != k_std]
        cr = np.cross(cell[2], std[k_std])
        e.post("non-periodic vector last, along the layer normal", z3.And(*[v.eqz() for v in cr], np.dot(cell[2], std[k_std]).rel(lambda a, b: a > b)), mk("normal-last"))
        same = z3.Or(z3.And(*[zbool(cell[0][j] == std[inpl[0]][j]) for j in range(3)], *[zbool(cell[1][j] == std[inpl[1]][j]) for j in range(3)]),
                     z3.And(*[zbool(cell[0][j] == std[inpl[1]][j]) for j in range(3)], *[zbool(cell[1][j] == std[inpl[0]][j]) for j in range(3)]))
        e.post("in-plane vectors are the standardized ones", same, mk("in-plane-vectors"))
        nn = len(conv)
        e.post("same atoms", nn == n and list(conv.get_atomic_numbers()) == list(ds.std_types), mk("atoms"))
        want_l = sorted((S.image_letter(sg, l0, key) if key != S.IDENTITY_KEY else l0, Z) for l0, Z in occ for _ in S.orbit(sg, l0))
        e.post("per-atom Wyckoff letters are those of the returned atoms (independent assignment)",
               len(letters) == nn and sorted((str(l_), int(z_)) for l_, z_ in zip(letters, conv.get_atomic_numbers())) == want_l, mk("letters"))
        f2 = conv.get_scaled_positions(wrap=False)
        e.post("all atoms inside the cell", z3.And(*[z3.And(zbool(f2[i][c] >= 0), zbool(f2[i][c] <= 1)) for i in range(nn) for c in range(3)]), mk("inside"))
        # thickness = max(atomic extent, min_2d_thickness); extent from the standardized coordinates after the chosen transformation
        Pm = [list(r[:3]) for r in key[:3]]
        tt = [r[3] for r in key[:3]]
        w = [sum(ds.std_positions[i][k2] * Pm[k_std][k2] for k2 in range(3)) + tt[k_std] for i in range(n)]    # normal coordinate (mod 1)
        cn2 = np.dot(std[k_std], std[k_std])
        L2 = np.dot(cell[2], cell[2])
        # circular differences: the slab spans < 1/4 of the cell, so the difference of two atoms modulo 1 lies in (-1/4, 1/4)
        ext2 = []
        conds = []
        for i in range(n):
            for j in range(n):
                d = w[i] - w[j]
                dk = d - (d + F(1, 2)).floor()
                ext2.append(dk * dk * cn2)
                # preserved along the normal in the result
                conds.append(zbool((f2[i][2] - f2[j][2]) * (f2[i][2] - f2[j][2]) * L2 == dk * dk * cn2))
        mt2 = mt * mt
        e.post("thickness = max(atomic extent, min_2d_thickness)", z3.And(L2.rel(lambda a, b: a >= b, mt2), *[L2.rel(lambda a, b: a >= b, v) for v in ext2], z3.Or(L2.eqz(mt2), *[L2.eqz(v) for v in ext2])), mk("thickness"))
        e.post("distances between atoms along the normal are preserved", z3.And(*conds), mk("normal-distances"))
        # in-plane coordinates = chosen rigid motion of the standardized ones modulo the in-plane lattice
        swap = bool(zbool(cell[0][0] == std[inpl[1]][0])) and not bool(zbool(cell[0][0] == std[inpl[0]][0])) if False else None
        conds = []
        for i in range(n):
            for a_, k_in in enumerate(inpl):
                want = sum(ds.std_positions[i][k2] * Pm[k_in][k2] for k2 in range(3)) + tt[k_in]
                alts = [z3.IsInt((f2[i][c2] - want).z3()) if not (f2[i][c2] - want).is_const() else z3.BoolVal((f2[i][c2] - want).cval().denominator == 1) for c2 in (0, 1)]
                conds.append(z3.Or(*alts))
        e.post("in-plane positions = chosen rigid motion of the standardized atoms modulo the in-plane lattice", z3.And(*conds), mk("in-plane-positions"))
        e.reach("H11b")
        e.sample({"space_group": sg, "std_normal_axis": k_std, "original_non_periodic_axis": i_np, "transformation_variant": variant, "occupation": occ})
    return fn


def conc_layer(sg, k_std, occ, vals, i_np, variant, mt, sup=False):
    """real analyzer / numpy / ASE, real periodic centre of mass; spglib's dataset scripted (contract dataset)"""
    from ase import Atoms
    ds = S.concrete_dataset(sg, occ, vals, orig_supercell=sup)
    lat = layer_lattice(sg, k_std)
    lat = np.array([[(1.5 * 3 ** 0.5 if v == "s3" else float(v)) for v in row] for row in lat], dtype=float)
    ds["std_lattice"] = lat
    ds["transformation_matrix"] = np.array(transformation_matrix(i_np, k_std, variant), dtype=float)
    pbc = [True, True, True]
    pbc[i_np] = False
    n = len(ds.std_types)
    osys = Atoms(numbers=ds["orig_types"], scaled_positions=np.full((len(ds["orig_types"]), 3), 0.25), cell=np.diag([3.0, 4.0, 5.0]), pbc=pbc)
    msgs = []
    with patched(SA, segfault_protect=lambda fn, d, tol: ds):
        try:
            an = SA.SymmetryAnalyzer(osys, min_2d_thickness=mt)
            conv = an.get_conventional_system()
            letters = [str(x) for x in an.get_wyckoff_letters_conventional()]
        except Exception as ex:
            return [f"raised {type(ex).__name__}: {ex}"]
    if list(conv.get_pbc()) != [True, True, False]:
        msgs.append(f"pbc = {list(conv.get_pbc())}, expected [True, True, False]")
    key_ = S.tkey(np.asarray(an._best_transform["transformation"]))
    want_l = sorted((S.image_letter(sg, l0, key_) if key_ != S.IDENTITY_KEY else l0, Z) for l0, Z in occ for _ in S.orbit(sg, l0))
    if sorted(zip(letters, [int(z) for z in conv.get_atomic_numbers()])) != want_l:
        msgs.append(f"per-atom Wyckoff letters {''.join(letters)} are not those of the returned atoms")
    cell = np.array(conv.get_cell())
    inpl = [k for k in range(3) if k != k_std]
    if np.linalg.norm(np.cross(cell[2], lat[k_std])) > 1e-6 or np.dot(cell[2], lat[k_std]) <= 0:
        msgs.append("the last cell vector is not along the layer normal")
    if not ((np.allclose(cell[0], lat[inpl[0]]) and np.allclose(cell[1], lat[inpl[1]])) or (np.allclose(cell[0], lat[inpl[1]]) and np.allclose(cell[1], lat[inpl[0]]))):
        msgs.append("in-plane cell vectors are not the standardized ones")
    f = conv.get_scaled_positions(wrap=False)
    if f.min() < -1e-6 or f.max() > 1 + 1e-6:
        msgs.append("atoms outside the cell")
    T = np.asarray(an._best_transform["transformation"], dtype=float)
    wz = (ds.std_positions @ T[:3, :3].T + T[:3, 3])[:, k_std]
    d = wz[:, None] - wz[None, :]
    d = d - np.round(d)
    extent = np.abs(d).max() * np.linalg.norm(lat[k_std])
    if abs(np.linalg.norm(cell[2]) - max(extent, mt)) > 1e-6 * (1 + extent):
        msgs.append(f"thickness {np.linalg.norm(cell[2]):.6g}, expected max(extent {extent:.6g}, min_2d_thickness {mt})")
    return msgs


# ---------------------------------------------------------------------------------- H11c: 2D id differs from the 3D id
def _id_sessions(real):
    """material id of the same standardized data analysed as a 2D and as a 3D system; returns the two hashed strings (symbolic
    run, hashlib recorder) or the two ids (real run)"""
    out = []
    for two_d in (True, False):
        pbc = [True, True, not two_d]
        if real:
            from ase import Atoms
            ds = S.concrete_dataset(47, [("a", 6), ("q", 8)], [[0, 0, 0], [0, 0, 1 / 16]])
            ds["std_lattice"] = np.array([[float(v) for v in row] for row in layer_lattice(47, 2)])
            ds["transformation_matrix"] = np.eye(3)
            n = len(ds.std_types)
            osys = Atoms(numbers=ds.std_types, scaled_positions=np.full((n, 3), 0.25), cell=np.diag([3.0, 4.0, 5.0]), pbc=pbc)
            with patched(SA, segfault_protect=lambda fn, d, tol, ds=ds: ds):
                out.append(SA.SymmetryAnalyzer(osys, symmetry_tol=1e-4).get_material_id())
        else:
            yield two_d, pbc
    if real:
        yield out


def h11c(e):
    strings = {}
    for two_d in (True, False):
        pbc = [True, True, not two_d]
        ds = S.make_dataset(e, 47, [("a", 6), ("q", 8)], tag="d" if two_d else "t")
        ds["std_lattice"] = const_array(layer_lattice(47, 2))
        ds["transformation_matrix"] = np.eye(3)
        n = len(ds.std_types)
        osys = StubAtoms(numbers=np.array(ds.std_types), scaled_positions=const_array(np.full((n, 3), 0.25)), cell=const_array([[3, 0, 0], [0, 4, 0], [0, 0, 5]]), pbc=pbc)
        ses = S.Session([ds])
        ses.systems = [osys]
        ses.table = {id(osys): ds}
        rec = []

        class Hash:
            def update(self, b):
                rec.append(b.decode("utf-8"))

            def digest(self):
                return b"x" * 64

        class HL:
            @staticmethod
            def sha512():
                return Hash()

        def com(system):
            return np.dot(np.array([SReal.const(F(1, 2))] * 3, dtype=object), system.get_cell())
        with ses.active(), patched(SA, hashlib=HL), patched(SA.matid.geometry, get_center_of_mass=com):
            an = ses.start()
            an.get_material_id()
        strings[two_d] = rec

    def cex(env):
        ids = next(_id_sessions(True))
        return {"key": "H11c:2D-id-equals-3D-id", "what": f"the material id of a 2D system equals the id of the same cell treated as a 3D crystal ({ids})", "replay": {"kind": "ids"}, "reproduced": ids[0] == ids[1]}
    ok = len(strings[True]) == 1 and len(strings[False]) == 1
    e.post("exactly one string is hashed per id", ok, cex)
    if ok:
        e.post("the hashed string of the 2D system differs from that of the same cell treated as a 3D crystal", strings[True][0] != strings[False][0], cex)
    e.reach("H11c")
    e.sample({"hashed_string_2D": strings[True][:1], "hashed_string_3D": strings[False][:1]})


def main(tier, seed, only=None):
    rep = Report(PID, tier, seed)
    for f in (SA.SymmetryAnalyzer.set_system, SA.SymmetryAnalyzer.get_conventional_system, SA.SymmetryAnalyzer.get_material_id, G.get_thickness, G.swap_basis, G.get_minimized_cell):
        rep.function(f)
    jobs = [("H11a", f"H11a:np{i}:n{n}", h11a(i, n)) for i in range(3) for n in ((1, 2) if tier == "quick" else (1, 2, 3))]
    layers = range(len(LAYERS)) if tier == "thorough" else [0, 2, 3, 4, 5, 6, 7, 9]
    variants = range(4) if tier == "quick" else range(6)
    for li in layers:
        for i_np in range(3):
            for v in variants:
                jobs.append(("H11b", f"H11b:L{li}:np{i_np}:v{v}", h11b(li, i_np, v)))
    jobs.append(("H11c", "H11c", h11c))
    import multiprocessing as mp
    global _JOBS
    _JOBS = {j[1]: j for j in jobs if not only or any(j[1].startswith(o) for o in only)}
    with mp.get_context("fork").Pool(16) as pool:
        for name, st in pool.imap_unordered(_run, list(_JOBS), chunksize=1):
            rep.merge_stats(st, _JOBS[name][0])
    if not only:
        rep.require_reached("H11a", "H11b", "H11c")
    rep.bounds = {"H11a": "1-2 (3) atoms anywhere, each axis non-periodic in turn, symbolic length of the non-periodic vector",
                  "H11b": f"{len(list(layers))} layer settings (space groups 1, 6, 47 with the normal along a, b or c, 123, 191, 187), 3 original non-periodic axes x {len(list(variants))} transformation-matrix variants (permutations, sign, in-plane shear), symbolic Wyckoff parameters (heights within 1/8 of the cell: <= 1/8 where an orbit is pinned to height 0, a window at any height for the polar layers of groups 1 and 156) and min_2d_thickness; layers with two letters also analysed from an in-plane supercell whose per-atom arrays list the copies of an atom next to each other",
                  "H11c": "2D vs 3D periodicity of the same dataset"}
    rep.stubs = ["SpglibContract dataset incl. transformation_matrix with exactly one row carrying the non-periodic axis", "get_center_of_mass by contract: the component along the normal lies within a quarter cell of every atom and between the lowest and the highest atom",
                 "hashlib recorder (H11c)", "StubAtoms / StubSystem"]
    rep.assumptions = ["the analysed cell has vacuum >= 3 x thickness (established by H11a), so the atoms span < 1/4 of the standardized cell along the normal",
                       "spglib orients the standardized cell with the layer normal along the cartesian axis of the same index"]
    rep.outside = ["independence from vacuum / supercell / rotation through spglib", "the periodic centre-of-mass lemma (trigonometric)"]
    return rep.finish()


def _run(name):
    fam, _, fn = _JOBS[name]
    return name, explore(fn, name, workers=1, timeout_ms=30000, budget_s=900)


def replay(d):
    if d["kind"] == "layer":
        sg, k_std, occ, _ = LAYERS[d["layer"]]
        msgs = conc_layer(sg, k_std, occ, d["params"], d["i_np"], d["variant"], d["min_2d_thickness"], d.get("supercell", False))
        return bool(msgs), "; ".join(msgs[:4]) or "ok"
    if d["kind"] == "ids":
        ids = next(_id_sessions(True))
        return ids[0] == ids[1], f"2D id {ids[0]}, 3D id {ids[1]}"
    if d["kind"] == "set_system":
        from ase import Atoms
        c, p = np.array(d["cell"], float), np.array(d["positions"], float)
        i_np = d["pbc"].index(False)
        at = Atoms(numbers=[6, 8, 6][:len(p)], positions=p, cell=c, pbc=d["pbc"])
        b = SA.SymmetryAnalyzer(at)._analyzed_system
        f = np.linalg.solve(c.T, p.T).T[:, i_np]
        want = max(5.0, 3 * (f.max() - f.min()) * np.linalg.norm(c[i_np]))
        ok = abs(np.linalg.norm(np.array(b.get_cell())[i_np]) - want) < 1e-6 * want
        return not ok, "vacuum vector length wrong" if not ok else "ok"
    return False, "unknown replay kind"
