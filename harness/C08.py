"""C08 — reported free Wyckoff parameters regenerate the atoms of their set (Engine A over every row with variables)."""
import itertools
from fractions import Fraction as F

import numpy as np
import z3

import matid.symmetry.symmetryanalyzer as SA
import matid.geometry.geometry as G
from matid.symmetry import WyckoffSet
from lib.common import Report
from symx.engine import explore
from symx.values import SReal, SBool, zbool, const_array
from symx.npproxy import NPProxy, patched
from harness import sym_common as S
from tables import refgroups as RG
from tables.exprparse import parse_linear

PID = "C08"


def search_contract(full):
    """exact-arithmetic contract of _search_periodic_positions: index of a candidate congruent to the target modulo Z^3,
    else None.  generic semantics: congruent for all parameter values (normal form); full semantics: left to z3."""
    def search(self, target_pos, positions, cell, accuracy, wrap=True):
        positions = np.asarray(positions, dtype=object)
        if positions.ndim == 1:
            positions = positions[None, :]
        tk = tuple(S.canon_mod1(v) for v in target_pos)
        for j in range(len(positions)):
            pk = tuple(S.canon_mod1(v) for v in positions[j])
            if None not in tk and tk == pk:
                return j
        if not full:
            return None
        for j in range(len(positions)):
            d = [target_pos[c] - positions[j][c] for c in range(3)]
            cond = z3.And(*[z3.IsInt(x.z3()) if isinstance(x, SReal) and not x.is_const() else z3.BoolVal(S.int_syntactic(x)) for x in d])
            if bool(SBool(cond)):
                return j
        return None
    return search


def rep_value(rep, W):
    """substitute parameter values into the representative expression strings"""
    out = []
    for s in rep:
        lf = parse_linear(s)
        v = SReal.const(lf[3]) if not isinstance(lf[3], SReal) else lf[3]
        for k in range(3):
            if lf[k] != 0:
                if W[k] is None:
                    return None
                v = v + W[k] * lf[k]
        out.append(v)
    return out


def conc_row(sg, letter, vals, first=0):
    """(1) public API with real spglib; (2) the real _get_wyckoff_sets (real numpy, real _search_periodic_positions) on the
    concrete orbit.  Returns messages."""
    from ase import Atoms
    pts = [[x % 1 for x in p.value(vals)] for p in S.orbit(sg, letter)]
    pts = pts[first:] + pts[:first]
    lat = np.array(S.std_lattice(sg), dtype=float)
    variables = sorted(SA.WYCKOFF_SETS[sg][letter]["variables"])

    def judge(wsets, positions, label):
        msgs = []
        for w in wsets:
            if w.wyckoff_letter != letter:
                continue
            got = {v: getattr(w, v) for v in "xyz"}
            if sorted(v for v in got if got[v] is not None) != variables:
                msgs.append(f"{label}: parameters set {sorted(v for v in got if got[v] is not None)}, row has {variables}")
                continue
            if any(not (0 <= got[v] < 1) for v in variables):
                msgs.append(f"{label}: parameter outside [0,1): {got}")
            val = [float(sum(parse_linear(s)[k] * (got["xyz"[k]] or 0) for k in range(3)) + parse_linear(s)[3]) for s in w.representative]
            d = np.abs((np.array(positions)[w.indices] - np.array(val) + 0.5) % 1 - 0.5).max(axis=1)
            if d.min() > 1e-4:
                msgs.append(f"{label}: representative {w.representative} at {got} is {val}, {d.min():.3g} (fractional) away from every atom of the set")
        return msgs
    msgs = []
    try:
        at = Atoms(numbers=[14] * len(pts), scaled_positions=pts, cell=lat, pbc=True)
        an = SA.SymmetryAnalyzer(at, symmetry_tol=1e-4)
        if an.get_space_group_number() == sg:
            ws = an.get_wyckoff_sets_conventional(return_parameters=True)
            msgs = judge(ws, an.get_conventional_system().get_scaled_positions(), "public API")
    except ValueError as ex:
        msgs = [f"public API: get_wyckoff_sets_conventional(True) raised ValueError: {str(ex)[:160]}"]
    except Exception as ex:
        msgs = [f"public API: raised {type(ex).__name__}: {ex}"]
    if msgs:
        return msgs
    an = SA.SymmetryAnalyzer.__new__(SA.SymmetryAnalyzer)
    at = Atoms(numbers=[14] * len(pts), scaled_positions=pts, cell=lat, pbc=True)
    try:
        ws = an._get_wyckoff_sets(at, sg, np.array([letter] * len(pts)), np.zeros(len(pts), dtype=int), 1e-4, True)
        msgs = judge(ws, at.get_scaled_positions(), "_get_wyckoff_sets on the orbit")
    except ValueError as ex:
        msgs = [f"_get_wyckoff_sets on the orbit of {sg}{letter}: ValueError: {str(ex)[:160]}"]
    except Exception as ex:
        msgs = [f"_get_wyckoff_sets on the orbit of {sg}{letter}: raised {type(ex).__name__}: {ex}"]
    return msgs


def make_fn(sg, letters, full, rotations):
    def fn(e):
        letter = e.pick(letters)
        n = len(S.orbit(sg, letter))
        first = e.pick(rotations(n))
        order = list(range(first, n)) + list(range(first))
        ds = S.make_dataset(e, sg, [(letter, 14)], order=order)
        system = S.StubSystem(numbers=ds.std_types, scaled_positions=ds.std_positions, cell=ds.std_lattice, pbc=True)
        an = SA.SymmetryAnalyzer.__new__(SA.SymmetryAnalyzer)
        exc, sets = None, None
        NPProxy.hooks["lexsort"] = lambda keys: np.arange(len(np.asarray(keys[0])))
        try:
            with patched(SA, np=S.NP, WYCKOFF_SETS=S.rational_wyckoff_sets()), patched(SA.matid.geometry, get_wrapped_positions=S.wrapped_exact), \
                    patched(SA.SymmetryAnalyzer, _search_periodic_positions=search_contract(full)):
                try:
                    sets = an._get_wyckoff_sets(system, sg, np.array([letter] * n), np.zeros(n, dtype=int), 1e-3, True)
                except ValueError as ex:
                    exc = ex
        finally:
            NPProxy.hooks.clear()

        def cex(env):
            vals = [float(S.concrete(np.array([x], dtype=object), env)[0]) if isinstance(x, SReal) else float(x) for x in ds["_params"][0]]
            msgs = conc_row(sg, letter, vals, first)
            return {"key": f"H08b:{sg}:{letter}", "what": f"space group {sg}, Wyckoff position {letter}: " + "; ".join(msgs[:3]),
                    "replay": {"kind": "row", "sg": sg, "letter": letter, "params": vals, "first": first}, "reproduced": bool(msgs)}
        if exc is not None:
            e.post("parameters are resolved (no ValueError)", False, cex)
            e.sample({"space_group": sg, "letter": letter, "exception": str(exc)[:120]})
            return
        variables = sorted(SA.WYCKOFF_SETS[sg][letter]["variables"])
        w = sets[0]
        got = {v: getattr(w, v) for v in "xyz"}
        e.post("exactly the row's variables are reported", len(sets) == 1 and sorted(v for v in got if got[v] is not None) == variables, cex)
        vals = [got[v] for v in "xyz"]
        conds = [z3.And(got[v].rel(lambda a, b: a >= b), got[v].rel(lambda a, b: a < b, 1)) for v in variables if isinstance(got[v], SReal)]
        e.post("each reported parameter lies in [0,1)", z3.And(*conds) if conds else True, cex)
        val = rep_value(w.representative, vals)
        if val is None:
            e.post("representative expression uses only reported parameters", False, cex)
        else:
            f = system.get_scaled_positions(wrap=False)
            alts = []
            hit = False
            vk = tuple(S.canon_mod1(x) for x in val)
            for j in w.indices:
                if None not in vk and vk == tuple(S.canon_mod1(x) for x in f[j]):
                    hit = True
                    break
            if hit:
                d = [val[c] - f[j][c] for c in range(3)]
                e.post("representative at the reported parameters is an atom of the set (mod lattice)",
                       z3.And(*[z3.IsInt(x.z3()) if not x.is_const() else z3.BoolVal(x.cval().denominator == 1) for x in d]), cex)
            else:
                for j in w.indices:
                    d = [val[c] - f[j][c] for c in range(3)]
                    alts.append(z3.And(*[z3.IsInt(x.z3()) if not x.is_const() else z3.BoolVal(x.cval().denominator == 1) for x in d]))
                e.post("representative at the reported parameters is an atom of the set (mod lattice)", z3.Or(*alts), cex)
        e.post("multiplicity and indices cover the orbit", w.multiplicity == n and sorted(w.indices) == list(range(n)), cex)
        e.reach("H08b")
        e.sample({"space_group": sg, "letter": letter, "first_atom": first, "parameters": {v: str(got[v]) for v in variables}})
    return fn


# ------------------------------------------------------------------------------ H08a: unit contract of the real search
def h08a(cellname):
    from lib import cells as CELLS

    def fn(e):
        cell = const_array(CELLS.FAMILY[cellname])
        n = e.pick([1, 2])
        ax = e.pick([0, 1, 2])
        # candidates differ from the target along one lattice direction (the distance is then |d| * |cell vector|: linear);
        # the other two fractional coordinates are equal constants, given in different periodic images
        base = [F(1, 4), F(3, 4), F(1, 2)]
        pos = np.empty((n, 3), dtype=object)
        tgt = np.empty((3,), dtype=object)
        for c in range(3):
            tgt[c] = e.real(f"t_{c}", lo=-2, hi=2) if c == ax else SReal.const(base[c] - 1)
            for j in range(n):
                pos[j, c] = e.real(f"q_{j}_{c}", lo=-2, hi=2) if c == ax else SReal.const(base[c] + j)
        acc = e.real("acc", lo=0, hi=F(1, 2))
        an = SA.SymmetryAnalyzer.__new__(SA.SymmetryAnalyzer)
        p_in, t_in = pos.copy(), tgt.copy()
        with patched(SA, np=S.NP):
            res = an._search_periodic_positions(t_in, p_in, cell, acc)
        # oracle on the same path: component-wise wrap to (-1/2, 1/2] of the difference, cartesian length
        d2 = []
        for j in range(n):
            dv = []
            for c in range(3):
                x = (pos[j, c] % 1) - (tgt[c] % 1)
                x = x - 1 if bool(x > F(1, 2)) else (x + 1 if bool(x < -F(1, 2)) else x)
                dv.append(x)
            cart = np.dot(np.array(dv, dtype=object), cell.T)
            d2.append(np.dot(cart, cart))
        a2 = acc * acc
        best = min(range(n), key=lambda j: 0) if n == 1 else (0 if bool(d2[0] <= d2[1]) else 1)

        def cex(env):
            return {"key": f"H08a:{cellname}", "what": "_search_periodic_positions does not return the nearest periodic match within the accuracy (or None)",
                    "replay": {"kind": "search"}, "reproduced": False}
        if res is None:
            e.post("None only when no candidate is within the accuracy", z3.And(*[zbool(x > a2) for x in d2]), cex)
        else:
            e.post("returned candidate is within the accuracy and nearest", z3.And(zbool(d2[int(res)] <= a2), *[zbool(d2[int(res)] <= x) for x in d2]), cex)
        e.post("inputs are wrapped in place into [0,1)", z3.And(*[z3.And(zbool(v >= 0), zbool(v < 1)) for v in list(np.ravel(p_in)) + list(t_in)]), cex)
        e.reach("H08a:None" if res is None else "H08a:match")
        e.sample({"cell": cellname, "candidates": n, "axis": ax, "result": None if res is None else int(res)})
    return fn


# ------------------------------------------------------------------------------ H08c: wrap helper and flag
def h08c(e):
    """get_wrapped_positions on one symbolic value: result in [0,1), congruent to the input modulo 1 up to the 1e-5 snap"""
    v = e.real("v", lo=-3, hi=3)
    arr = np.array([v, v + 1, SReal.const(F(1, 2))], dtype=object)
    with patched(G, np=S.NP):
        out = G.get_wrapped_positions(arr)

    def cex(env):
        x = float(S.concrete(np.array([v], dtype=object), env)[0])
        r = G.get_wrapped_positions(np.array([x, x + 1, 0.5]))
        ok = all(0 <= t < 1 for t in r) and min(abs(((r[0] - x) % 1)), 1 - abs((r[0] - x) % 1)) <= 1e-5 + 1e-12
        return {"key": "H08c:get_wrapped_positions", "what": f"get_wrapped_positions({x}) = {r[0]}", "replay": {"kind": "wrap", "v": x}, "reproduced": not ok}
    for k, src in ((0, v), (1, v + 1)):
        r = out[k]
        e.post("wrapped value in [0,1)", z3.And(zbool(r >= 0), zbool(r < 1)), cex)
        diff = r - src
        e.post("wrapped value congruent to the input modulo 1 (up to the 1e-5 snap)",
               z3.Or(*[z3.And(diff.z3() - kq >= z3.RealVal("-10001/1000000000"), diff.z3() - kq <= z3.RealVal("10001/1000000000")) for kq in range(-6, 6)]), cex)
    e.post("1/2 stays 1/2", zbool(out[2] == F(1, 2)), cex)
    e.reach("H08c")
    e.sample({"value": "symbolic in [-3,3]"})


def h08d(sg, occ):
    """public API call histories on one analyzer: flag and parameters after get_material_id() / return_parameters=False"""
    prev_occ = other_occupation(sg, occ)

    def fn(e):
        hist = e.pick(["fresh", "after-id", "after-false", "after-true", "after-other-system"])
        ds = S.make_dataset(e, sg, occ)
        other = hist == "after-other-system"
        # one analyzer object that has analysed (flag, parameters) another crystal before: one whose flag is the opposite
        # where the group has both kinds of position
        ses = S.Session([S.make_dataset(e, sg, prev_occ, tag="P"), ds] if other else [ds])
        NPProxy.hooks["lexsort"] = lambda keys: np.arange(len(np.asarray(keys[0])))
        exc = None
        try:
            with ses.active(), patched(SA.SymmetryAnalyzer, _search_periodic_positions=search_contract(False)):
                try:
                    an = ses.start()
                    if other:
                        an.get_has_free_wyckoff_parameters()
                        an.get_wyckoff_sets_conventional(return_parameters=True)
                        an = ses.switch(1)
                    if hist == "after-id":
                        an.get_material_id()
                    elif hist == "after-false":
                        an.get_wyckoff_sets_conventional(return_parameters=False)
                    elif hist == "after-true":
                        an.get_wyckoff_sets_conventional(return_parameters=True)
                    sets = an.get_wyckoff_sets_conventional(return_parameters=True)
                    flag = an.get_has_free_wyckoff_parameters()
                except Exception as ex:    # noqa: BLE001
                    exc = ex
        finally:
            NPProxy.hooks.clear()

        def cex(env):
            vals = [[float(S.concrete(np.array([x], dtype=object), env)[0]) if isinstance(x, SReal) else float(x) for x in p] for p in ds["_params"]]
            msgs = conc_history(sg, occ, vals, hist)
            return {"key": f"H08d:{sg}:{hist}", "what": f"space group {sg}, occupation {occ}, call history {hist!r}: " + "; ".join(msgs[:3]),
                    "replay": {"kind": "history", "sg": sg, "occupation": [list(o) for o in occ], "params": vals, "history": hist}, "reproduced": bool(msgs)}
        if exc is not None:
            e.post("parameters are returned normally", False, cex)
            return
        anyvar = False
        for w in sets:
            variables = sorted(SA.WYCKOFF_SETS[sg][w.wyckoff_letter]["variables"])
            anyvar |= bool(variables)
            got = sorted(v for v in "xyz" if getattr(w, v) is not None)
            e.post("exactly the free variables of each occupied position are reported", got == variables, cex)
        e.post("has-free-parameters flag <=> some occupied set carries a parameter", bool(flag) == anyvar, cex)
        e.reach("H08d")
        e.sample({"space_group": sg, "occupation": occ, "history": hist, "flag": bool(flag)})
    return fn


def other_occupation(sg, occ):
    """a single-orbit crystal of the same group whose has-free-parameters flag is the opposite of `occ`'s, if there is one"""
    has = any(S.nvars(sg, l) for l, _ in occ)
    cands = [l for l in S.letters_of(sg) if bool(S.nvars(sg, l)) != has] or [S.letters_of(sg)[-1]]
    return [(cands[0], 8)]


def conc_history(sg, occ, vals, hist):
    ds = S.concrete_dataset(sg, occ, vals)
    other = hist == "after-other-system"
    prev_occ = other_occupation(sg, occ)
    ses = S.RealSession(([S.concrete_dataset(sg, prev_occ, [[0.137 if v in S.WYCKOFF_SETS[sg][prev_occ[0][0]]["variables"] else 0.0 for v in "xyz"]])] if other else []) + [ds])
    msgs = []
    with ses.active():
        try:
            an = ses.start(symmetry_tol=1e-4)
            if other:
                an.get_has_free_wyckoff_parameters()
                an.get_wyckoff_sets_conventional(return_parameters=True)
                an = ses.switch(1)
            if hist == "after-id":
                an.get_material_id()
            elif hist == "after-false":
                an.get_wyckoff_sets_conventional(return_parameters=False)
            elif hist == "after-true":
                an.get_wyckoff_sets_conventional(return_parameters=True)
            sets = an.get_wyckoff_sets_conventional(return_parameters=True)
            flag = an.get_has_free_wyckoff_parameters()
        except Exception as ex:
            return [f"raised {type(ex).__name__}: {str(ex)[:160]}"]
    anyvar = False
    for w in sets:
        variables = sorted(SA.WYCKOFF_SETS[sg][w.wyckoff_letter]["variables"])
        anyvar |= bool(variables)
        got = sorted(v for v in "xyz" if getattr(w, v) is not None)
        if got != variables:
            msgs.append(f"set {w.wyckoff_letter}/{w.element}: parameters {got} reported, position has {variables}")
    if bool(flag) != anyvar:
        msgs.append(f"has_free_wyckoff_parameters = {flag}, but occupied positions {'do' if anyvar else 'do not'} carry parameters")
    return msgs


# ------------------------------------------------------------------------------ H08e: two-dimensional inputs
def h08e(layer_idx, i_np, variant):
    """parameters of a layer's sets through the public API (2D branch): the normal coordinate of the orbit is a fixed small
    number and min_2d_thickness is 1, in-plane parameters stay symbolic"""
    from harness import C11

    sg, k_std, occ, normal_params = C11.LAYERS[layer_idx]

    def fn(e):
        ds = S.make_dataset(e, sg, occ)
        # replace the normal parameter by a concrete value: rebuild the dataset with mixed concrete/symbolic parameters
        conc = []
        for (letter, Z), which, prm in zip(occ, normal_params, ds["_params"]):
            conc.append([(F(1, 16) if which == v else (prm["xyz".index(v)] if isinstance(prm["xyz".index(v)], SReal) and not prm["xyz".index(v)].is_const() else F(0))) for v in "xyz"])
        ds = S.make_dataset(e, sg, occ, concrete_params=None)
        # substitute: positions are linear in the parameters, so a second dataset built from Fractions where concrete
        pos = []
        for oi, (letter, Z) in enumerate(occ):
            xyz = [c if isinstance(c, SReal) else SReal.const(c) for c in conc[oi]]
            for p in S.orbit(sg, letter):
                pos.append([x % 1 for x in p.sreal(xyz)])
        ds["std_positions"] = np.array(pos, dtype=object).reshape(-1, 3)
        ds["orig_positions"] = ds["std_positions"]
        lat = C11.layer_lattice(sg, k_std)
        if any(isinstance(v, str) for row in lat for v in row):
            return     # hexagonal settings carry sqrt(3): covered by the concrete replay family only
        ds["std_lattice"] = const_array(lat)
        ds["transformation_matrix"] = np.array(C11.transformation_matrix(i_np, k_std, variant), dtype=float)
        pbc = [True, True, True]
        pbc[i_np] = False
        n = len(ds.std_types)
        osys = S.StubAtoms(numbers=np.array(ds.std_types), scaled_positions=const_array(np.full((n, 3), 0.25)), cell=const_array([[3, 0, 0], [0, 4, 0], [0, 0, 5]]), pbc=pbc)
        ses = S.Session([ds])
        ses.systems = [osys]
        ses.table = {id(osys): ds}

        def com(system):
            f = system.get_scaled_positions(wrap=True)
            # concrete along the normal: the circular mean of a thin slab around 0 (mod 1) lies at 0 up to the slab half width
            cm = np.array([SReal.const(F(1, 3)), SReal.const(F(1, 5)), SReal.const(F(1, 7))], dtype=object)
            cm[k_std] = SReal.const(F(1, 100))
            return np.dot(cm, system.get_cell())
        NPProxy.hooks["lexsort"] = lambda keys: np.arange(len(np.asarray(keys[0])))
        exc = None
        try:
            with ses.active(), patched(SA.matid.geometry, get_center_of_mass=com), patched(SA.SymmetryAnalyzer, _search_periodic_positions=search_contract(False)):
                try:
                    an = ses.start(min_2d_thickness=1)
                    conv = an.get_conventional_system()
                    sets = an.get_wyckoff_sets_conventional(return_parameters=True)
                except ValueError as ex:
                    exc = ex
        finally:
            NPProxy.hooks.clear()

        def cex(env):
            msgs = conc_layer_params(layer_idx, i_np, variant)
            lab = cex.label
            return {"key": f"H08e:2D:{lab}", "what": f"two-dimensional input (layer setting {layer_idx}: space group {sg}, normal along std axis {k_std}): " + "; ".join(m for m in msgs if lab.split(':')[0] in m)[:400],
                    "replay": {"kind": "layer-params", "layer": layer_idx, "i_np": i_np, "variant": variant}, "reproduced": any(lab.split(":")[0] in m for m in msgs)}

        def mk(label):
            def c(env):
                cex.label = label
                return cex(env)
            return c
        if exc is not None:
            e.post("parameters of a layer are resolved (no ValueError)", False, mk("normal-coordinate:ValueError"))
            return
        f = conv.get_scaled_positions(wrap=False)
        for w in sets:
            variables = sorted(SA.WYCKOFF_SETS[sg][w.wyckoff_letter]["variables"])
            got = {v: getattr(w, v) for v in "xyz"}
            e.post("exactly the position's variables are reported", sorted(v for v in got if got[v] is not None) == variables, mk("in-plane:variables"))
            val = rep_value(w.representative, [got[v] for v in "xyz"])
            if val is None:
                continue
            # the conventional cell has the normal last: representative component k_std corresponds to result axis 2
            inpl = [k for k in range(3) if k != k_std]
            ok_in, ok_n = [], []
            for j in w.indices:
                a = []
                for k_in in inpl:
                    alts = []
                    for c2 in (0, 1):
                        d_ = val[k_in] - f[j][c2]
                        alts.append(z3.IsInt(d_.z3()) if isinstance(d_, SReal) and not d_.is_const() else z3.BoolVal(S.int_syntactic(d_)))
                    a.append(z3.Or(*alts))
                ok_in.append(z3.And(*a))
                d_ = val[k_std] - f[j][2]
                ok_n.append(z3.And(*a, d_.eqz() if isinstance(d_, SReal) else z3.BoolVal(d_ == 0)))
            e.post("representative at the reported parameters is an atom of the set: in-plane coordinates (mod lattice)", z3.Or(*ok_in), mk("in-plane:position"))
            e.post("representative at the reported parameters is an atom of the set: coordinate along the normal", z3.Or(*ok_n), mk("normal-coordinate"))
        e.reach("H08e")
        e.sample({"layer": layer_idx, "space_group": sg, "non_periodic_axis": i_np, "sets": [(w.wyckoff_letter, w.element, str(w.x), str(w.y), str(w.z)) for w in sets]})
    return fn


def conc_layer_params(layer_idx, i_np, variant, inplane=(0.137, 0.291)):
    """real analyzer/numpy/ASE and real periodic centre of mass, spglib's dataset scripted: representative at the reported
    parameters vs. the atoms of the returned 2D conventional system"""
    from harness import C11
    from ase import Atoms
    sg, k_std, occ, normal_params = C11.LAYERS[layer_idx]
    vals = []
    for (letter, Z), which in zip(occ, normal_params):
        it = iter(inplane)
        vals.append([(1 / 16 if which == v else (next(it, 0.41) if v in SA.WYCKOFF_SETS[sg][letter]["variables"] else 0.0)) for v in "xyz"])
    ds = S.concrete_dataset(sg, occ, vals)
    lat = C11.layer_lattice(sg, k_std)
    ds["std_lattice"] = np.array([[(1.5 * 3 ** 0.5 if v == "s3" else float(v)) for v in row] for row in lat], dtype=float)
    ds["transformation_matrix"] = np.array(C11.transformation_matrix(i_np, k_std, variant), dtype=float)
    pbc = [True, True, True]
    pbc[i_np] = False
    n = len(ds.std_types)
    osys = Atoms(numbers=ds.std_types, scaled_positions=np.full((n, 3), 0.25), cell=np.diag([3.0, 4.0, 5.0]), pbc=pbc)
    msgs = []
    with patched(SA, segfault_protect=lambda fn, d, tol: ds):
        try:
            an = SA.SymmetryAnalyzer(osys, min_2d_thickness=1, symmetry_tol=1e-4)
            conv = an.get_conventional_system()
            sets = an.get_wyckoff_sets_conventional(return_parameters=True)
        except ValueError as ex:
            return [f"normal-coordinate: get_wyckoff_sets_conventional(True) raised ValueError: {str(ex)[:120]}"]
        except Exception as ex:
            return [f"in-plane: raised {type(ex).__name__}: {ex}"]
    f = conv.get_scaled_positions(wrap=False)
    inpl = [k for k in range(3) if k != k_std]
    for w in sets:
        got = [getattr(w, v) or 0.0 for v in "xyz"]
        val = [float(sum(parse_linear(s)[k] * got[k] for k in range(3)) + parse_linear(s)[3]) for s in w.representative]
        best_in, best_n = 9.0, 9.0
        for j in w.indices:
            din = max(min(abs(((val[k_in] - f[j][c2]) + 0.5) % 1 - 0.5) for c2 in (0, 1)) for k_in in inpl)
            best_in = min(best_in, din)
            best_n = min(best_n, max(din, abs(val[k_std] - f[j][2])))
        if best_in > 1e-4:
            msgs.append(f"in-plane: set {w.wyckoff_letter}/{w.element}: representative {w.representative} at (x,y,z)={got} is not an atom of the set in the plane")
        if best_n > 1e-4:
            msgs.append(f"normal-coordinate: set {w.wyckoff_letter}/{w.element}: representative {w.representative} at (x,y,z)={[round(v, 6) for v in got]} has normal coordinate {val[k_std]:.4g}, "
                        f"the atoms of the set sit at {[round(float(f[j][2]), 4) for j in w.indices]} in the re-centred, minimised 2D cell")
    return msgs


def rows_with_variables(sg):
    return [l for l in S.letters_of(sg) if S.nvars(sg, l) > 0]


def run_group(arg):
    sg, tier = arg
    letters = rows_with_variables(sg)
    out = []
    if letters:
        rot = (lambda n: sorted({0, n - 1})) if tier == "quick" else (lambda n: list(range(n)) if n <= 24 else sorted({0, 1, n // 2, n - 1}))
        out.append(("H08b", explore(make_fn(sg, letters, False, rot), f"H08b:sg{sg}", workers=1, timeout_ms=20000, budget_s=3000)))
        if tier == "thorough":
            small = [l for l in letters if len(S.orbit(sg, l)) <= 8]
            if small:
                out.append(("H08b-full", explore(make_fn(sg, small, True, lambda n: [0]), f"H08bf:sg{sg}", workers=1, timeout_ms=20000, budget_s=600)))
        occs = [[(letters[0], 14)], [(letters[-1], 8), (S.letters_of(sg)[0], 14)]]
        for i, occ in enumerate(occs[: (1 if tier == "quick" else 2)]):
            out.append(("H08d", explore(h08d(sg, occ), f"H08d:sg{sg}:{i}", workers=1, timeout_ms=20000, budget_s=600)))
    else:
        out.append(("H08d", explore(h08d(sg, [(S.letters_of(sg)[0], 14)]), f"H08d:sg{sg}", workers=1, timeout_ms=20000, budget_s=600)))
    return sg, out


def main(tier, seed, only=None):
    import multiprocessing as mp
    rep = Report(PID, tier, seed)
    for f in (SA.SymmetryAnalyzer._get_wyckoff_sets, SA.SymmetryAnalyzer._search_periodic_positions, SA.SymmetryAnalyzer.get_has_free_wyckoff_parameters,
              SA.SymmetryAnalyzer.get_wyckoff_sets_conventional, G.get_wrapped_positions, WyckoffSet):
        rep.function(f)
    groups = [int(x) for x in only if x.isdigit()] if only else list(range(1, 231))
    order = sorted(groups, key=lambda g: -sum(len(S.orbit(g, l)) ** 1.5 for l in rows_with_variables(g)))
    with mp.get_context("fork").Pool(16) as pool:
        for sg, out in pool.imap_unordered(run_group, [(g, tier) for g in order], chunksize=1):
            for fam, st in out:
                rep.merge_stats(st, fam)
    if not only or "H08e" in only:
        for li, i_np, v in ([(3, 2, 0), (6, 0, 1)] if tier == "quick" else [(3, 2, 0), (6, 0, 1), (2, 1, 0), (4, 2, 2), (5, 1, 3)]):
            rep.merge_stats(explore(h08e(li, i_np, v), f"H08e:L{li}:np{i_np}:v{v}", workers=1, timeout_ms=20000, budget_s=300), "H08e")
    if not only:
        for cname in (("pyth",) if tier == "quick" else ("ortho", "pyth", "rot", "needle")):
            rep.merge_stats(explore(h08a(cname), f"H08a:{cname}", timeout_ms=20000, budget_s=900, logic="lira"), "H08a")
        rep.merge_stats(explore(h08c, "H08c", workers=4, timeout_ms=20000, budget_s=300), "H08c")
        rep.require_reached("H08b", "H08d", "H08a:None", "H08a:match", "H08c")
    rep.bounds = {"rows": sum(len(rows_with_variables(g)) for g in groups), "first atom": "first and last member of the orbit (quick); every member for orbits <= 24, four otherwise (thorough)",
                  "search semantics": "generic (a non-constant linear form is never integral) for all rows; thorough adds z3-decided congruence for orbits <= 8",
                  "H08a": "real _search_periodic_positions, <= 2 candidates that differ from the target along one lattice direction at a time (symbolic fractional coordinate in [-2,2], the others in other periodic images), symbolic accuracy, rational cells with rational vector norms",
                  "H08d": "public API with five call histories (fresh, after get_material_id, after the sets without / with parameters, after another crystal with the opposite flag was analysed on the same analyzer object) on one or two occupations per group"}
    rep.stubs = ["orbit of the row's representative under the Hall-database group as the atoms (independent of the numeric matrices)", "rationalised copy of WYCKOFF_SETS",
                 "_search_periodic_positions replaced by its exact-arithmetic contract inside H08b/H08d (the real function is checked in H08a)", "lexsort = identity (the contract is order-insensitive)",
                 "get_wrapped_positions = x mod 1 inside H08b (the real function is checked in H08c)", "SpglibContract (H08d)"]
    rep.assumptions = ["C14: table rows are orbits and expressions equal matrices/constants", "matches that exist only through the 1e-3 / symmetry tolerance are outside"]
    rep.outside = ["special parameter values where alternative parametrisations coincide, beyond orbits of size 8 (thorough)", "floating-point tolerance effects"]
    return rep.finish()


def replay(d):
    if d["kind"] == "row":
        msgs = conc_row(d["sg"], d["letter"], d["params"], d.get("first", 0))
        return bool(msgs), "; ".join(msgs[:4]) or "ok"
    if d["kind"] == "history":
        msgs = conc_history(d["sg"], [tuple(o) for o in d["occupation"]], d["params"], d["history"])
        return bool(msgs), "; ".join(msgs[:4]) or "ok"
    if d["kind"] == "layer-params":
        msgs = conc_layer_params(d["layer"], d["i_np"], d["variant"])
        return bool(msgs), "; ".join(msgs[:4]) or "ok"
    if d["kind"] == "wrap":
        r = G.get_wrapped_positions(np.array([d["v"]]))
        ok = 0 <= r[0] < 1
        return not ok, f"get_wrapped_positions({d['v']}) = {r[0]}"
    return False, "unknown replay kind"
