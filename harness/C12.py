"""C12 — original, primitive and conventional descriptions are mutually consistent (Engine A + LIA, spglib by contract)."""
from fractions import Fraction as F

import numpy as np
import z3

import matid.symmetry.symmetryanalyzer as SA
from lib.common import Report
from symx.engine import explore
from symx.values import SReal, zbool, const_array
from symx.npproxy import det3, inv3
from harness import sym_common as S
from tables import refgroups as RG

PID = "C12"


def counts(letters, numbers):
    out = {}
    for l, z in zip(letters, numbers):
        out[(str(l), int(z))] = out.get((str(l), int(z)), 0) + 1
    return out


def classes_ok(equiv, letters, numbers):
    by = {}
    for q, l, z in zip(equiv, letters, numbers):
        by.setdefault(int(q), set()).add((str(l), int(z)))
    return all(len(v) == 1 for v in by.values())


def check_numeric(sg, an, orig_numbers, spglib_judge=True):
    """the statement on a real analyzer's output (numeric); spglib judges primitivity and the group of the primitive cell"""
    import spglib
    msgs = []
    conv, prim = an.get_conventional_system(), an.get_primitive_system()
    mult = 1 + len(RG.centring_translations(sg))
    trip = {"original": (an.get_wyckoff_letters_original(), an.get_equivalent_atoms_original(), orig_numbers),
            "primitive": (an.get_wyckoff_letters_primitive(), an.get_equivalent_atoms_primitive(), prim.get_atomic_numbers()),
            "conventional": (an.get_wyckoff_letters_conventional(), an.get_equivalent_atoms_conventional(), conv.get_atomic_numbers())}
    for name, (l, q, z) in trip.items():
        if not (len(l) == len(q) == len(z)):
            msgs.append(f"{name}: letters/equivalence arrays do not have one entry per atom")
        elif not classes_ok(q, l, z):
            msgs.append(f"{name}: equivalent atoms do not share element and letter")
    if len(prim) * mult != len(conv):
        msgs.append(f"primitive system has {len(prim)} atoms, conventional {len(conv)}, centring multiplicity {mult}")
    if abs(prim.get_volume() * mult - conv.get_volume()) > 1e-6 * conv.get_volume():
        msgs.append("primitive volume is not the conventional volume divided by the centring multiplicity")
    cc = counts(*trip["conventional"][::2])
    for name in ("original", "primitive"):
        l, q, z = trip[name]
        c2 = counts(l, z)
        n2, nc = len(z), len(conv)
        if set(c2) != set(cc) or any(c2[k] * nc != cc[k] * n2 for k in cc if k in c2):
            msgs.append(f"(letter, element) counts of the {name} system {c2} are not in the ratio of atom counts to the conventional ones {cc}")
    if not spglib_judge:
        return msgs
    ds = spglib.get_symmetry_dataset((np.array(prim.get_cell()), prim.get_scaled_positions(), prim.get_atomic_numbers()), symprec=1e-4)
    if ds is None or ds.number != sg:
        msgs.append(f"primitive system is reported as space group {None if ds is None else ds.number} instead of {sg}")
    fp = spglib.find_primitive((np.array(prim.get_cell()), prim.get_scaled_positions(), prim.get_atomic_numbers()), symprec=1e-4)
    if fp is not None and len(fp[2]) != len(prim):
        msgs.append("primitive system is not primitive")
    return msgs


def prev_occupation(sg, occ):
    """another crystal of the same group for the analyzer-reuse history: one orbit on the last letter that is not occ's"""
    ls = [l for l in S.letters_of(sg) if l != occ[0][0]] or S.letters_of(sg)
    return [(ls[-1], 8)]


def conc_check(sg, occ, vals, orig_order, supercell=False, reuse=False):
    from ase import Atoms
    prev_occ = prev_occupation(sg, occ)
    prev_vals = [[0.137 if v in S.WYCKOFF_SETS[sg][prev_occ[0][0]]["variables"] else 0.0 for v in "xyz"]]
    pos, nums = [], []
    for (letter, Z), v in zip(occ, vals):
        for p in S.orbit(sg, letter):
            pos.append([x % 1 for x in p.value(v)])
            nums.append(Z)
    if orig_order:
        pos = [pos[i] for i in orig_order]
        nums = [nums[i] for i in orig_order]
    at = Atoms(numbers=nums, scaled_positions=pos, cell=np.array(S.std_lattice(sg), dtype=float), pbc=True)
    if supercell:
        at = at.repeat((2, 1, 1))
        at = at[S.supercell_perm(len(at) // 2, supercell)]
        nums = list(at.get_atomic_numbers())
    msgs = []
    try:
        if reuse:
            ppos = [[x % 1 for x in p.value(prev_vals[0])] for p in S.orbit(sg, prev_occ[0][0])]
            an = SA.SymmetryAnalyzer(Atoms(numbers=[8] * len(ppos), scaled_positions=ppos, cell=np.array(S.std_lattice(sg), dtype=float), pbc=True), symmetry_tol=1e-4)
            an.get_primitive_system(), an.get_wyckoff_letters_primitive(), an.get_equivalent_atoms_primitive(), an.get_wyckoff_letters_original()
            an.set_system(at)
        else:
            an = SA.SymmetryAnalyzer(at, symmetry_tol=1e-4)
        if an.get_space_group_number() == sg:
            msgs = check_numeric(sg, an, nums)
    except Exception as ex:
        msgs = [f"raised {type(ex).__name__}: {ex}"]
    if msgs:
        return msgs
    ds = S.concrete_dataset(sg, occ, vals, orig_order=orig_order, orig_supercell=supercell)
    ses = S.RealSession(([S.concrete_dataset(sg, prev_occ, prev_vals)] if reuse else []) + [ds])
    with ses.active():
        try:
            an = ses.start()
            if reuse:
                an.get_primitive_system(), an.get_wyckoff_letters_primitive(), an.get_equivalent_atoms_primitive(), an.get_wyckoff_letters_original()
                an = ses.switch(1)
            msgs = ["[spglib dataset scripted] " + m for m in check_numeric(sg, an, list(ds["orig_types"]), spglib_judge=False)]
        except Exception as ex:
            msgs = [f"[spglib dataset scripted] raised {type(ex).__name__}: {ex}"]
    return msgs


def make_fn(sg, occs):
    cents = [(F(0),) * 3] + list(RG.centring_translations(sg))
    mult = len(cents)

    def fn(e):
        occ = e.pick(occs)
        n = sum(len(S.orbit(sg, l)) for l, _ in occ)
        # supercell originals: both listings for occupations of <= 2 orbits, the interleaved one only for 3 orbits (thorough tier)
        orig_order = None if n < 2 else e.pick([None, list(range(n))[::-1]] + (["supercell"] if len(occ) <= 2 else []) + ["interleaved"] + (["after-other"] if len(occ) == 1 else []))
        sup = {"supercell": True, "interleaved": "interleaved"}.get(orig_order if isinstance(orig_order, str) else None, False)
        reuse = orig_order == "after-other"
        orig_order = None if (sup or reuse) else orig_order
        ds = S.make_dataset(e, sg, occ, orig_order=orig_order, orig_supercell=sup)
        # reuse: the analyzer object has produced the primitive system and the letter mappings of another crystal before
        ses = S.Session([S.make_dataset(e, sg, prev_occupation(sg, occ), tag="P"), ds] if reuse else [ds])
        exc = None
        with ses.active():
            try:
                an = ses.start()
                if reuse:
                    an.get_primitive_system(), an.get_wyckoff_letters_primitive(), an.get_equivalent_atoms_primitive(), an.get_wyckoff_letters_original()
                    an = ses.switch(1)
                conv = an.get_conventional_system()
                prim = an.get_primitive_system()
                trip = {"original": (np.array(an.get_wyckoff_letters_original()), np.array(an.get_equivalent_atoms_original()), np.array(ds["orig_types"])),
                        "primitive": (np.array(an.get_wyckoff_letters_primitive()), np.array(an.get_equivalent_atoms_primitive()), prim.get_atomic_numbers()),
                        "conventional": (np.array(an.get_wyckoff_letters_conventional()), np.array(an.get_equivalent_atoms_conventional()), conv.get_atomic_numbers())}
            except Exception as ex:     # noqa: BLE001
                exc = ex

        def cex(env):
            vals = [[float(S.concrete(np.array([x], dtype=object), env)[0]) if isinstance(x, SReal) else float(x) for x in p] for p in ds["_params"]]
            msgs = conc_check(sg, occ, vals, orig_order, sup, reuse)
            return {"key": f"H12:sg{sg}:{cex.label}", "what": f"space group {sg}, occupation {occ}: " + "; ".join(msgs[:4]),
                    "replay": {"kind": "primitive", "sg": sg, "occupation": [list(o) for o in occ], "params": vals, "orig_order": orig_order, "supercell": sup, "reuse": reuse}, "reproduced": bool(msgs)}

        def mk(label):
            def c(env):
                cex.label = label
                return cex(env)
            return c
        if exc is not None:
            e.post("the three descriptions are returned normally", False, mk(f"raises:{type(exc).__name__}"))
            return
        for name, (l, q_, z) in trip.items():
            ok = len(l) == len(q_) == len(z)
            e.post(f"{name}: one letter and one class per atom", ok, mk(f"{name}-arrays"))
            if ok:
                e.post(f"{name}: equivalent atoms share element and letter", classes_ok(q_, l, z), mk(f"{name}-classes"))
        nc, npm = len(conv), len(prim)
        e.post("primitive atom count = conventional / centring multiplicity", npm * mult == nc, mk("atom-count"))
        cc = counts(trip["conventional"][0], trip["conventional"][2])
        for name in ("original", "primitive"):
            l, q_, z = trip[name]
            c2 = counts(l, z)
            e.post(f"(letter, element) counts of {name} vs conventional in the ratio of atom counts",
                   set(c2) == set(cc) and all(c2[k] * nc == cc[k] * len(z) for k in cc if k in c2), mk(f"{name}-counts"))
        # lattice: rows of the primitive cell in the conventional basis
        cc_cell, pc_cell = conv.get_cell(), prim.get_cell()
        Pm = np.dot(pc_cell, inv3(cc_cell))          # primitive vectors in conventional coordinates (exact rationals)
        Pq = [[Pm[i, j].cval() for j in range(3)] for i in range(3)]
        d = RG.det3(Pq)
        e.post("primitive volume = conventional volume / multiplicity (same orientation)", d * mult == 1, mk("volume"))
        # (a) every primitive vector is a lattice vector of the centred conventional lattice
        conds = []
        for i in range(3):
            conds.append(z3.Or(*[z3.And(*[z3.IsInt(z3.RealVal(str(Pq[i][c] - ct[c]))) for c in range(3)]) for ct in cents]))
        e.post("primitive vectors are vectors of the centred lattice", z3.And(*conds), mk("lattice-in"))
        # (b) every conventional vector and centring translation is an integer combination of the primitive vectors (LIA)
        nn = [z3.Int(f"k{i}") for i in range(3)]
        gens = [(F(1), F(0), F(0)), (F(0), F(1), F(0)), (F(0), F(0), F(1))] + cents[1:]
        conds = []
        for g in gens:
            conds.append(z3.Exists(nn, z3.And(*[sum(z3.ToReal(nn[i]) * z3.RealVal(str(Pq[i][c])) for i in range(3)) == z3.RealVal(str(g[c])) for c in range(3)])))
        e.post("primitive vectors generate the whole centred lattice", z3.And(*conds), mk("lattice-generates"))
        # atoms: every conventional atom is congruent modulo the primitive lattice to exactly one primitive atom of its species
        Pinv = inv3(const_array(Pq))
        fp = prim.get_scaled_positions(wrap=False)
        fc = conv.get_scaled_positions(wrap=False)
        keys = {}
        inside = []
        for j in range(npm):
            k = (int(prim.get_atomic_numbers()[j]),) + tuple(S.canon_mod1(fp[j][c]) for c in range(3))
            keys.setdefault(k, []).append(j)
            inside.extend(z3.And(fp[j][c].rel(lambda a, b: a >= b), fp[j][c].rel(lambda a, b: a < b, 1)) for c in range(3))
        e.post("primitive positions inside [0,1)", z3.And(*inside) if inside else True, mk("prim-wrapped"))
        hits = {}
        okc = True
        for i in range(nc):
            g = [sum(fc[i][k2] * Pinv[k2, c] for k2 in range(3)) for c in range(3)]
            k = (int(conv.get_atomic_numbers()[i]),) + tuple(S.canon_mod1(x) for x in g)
            js = keys.get(k, [])
            if len(js) != 1:
                okc = False
                break
            hits[js[0]] = hits.get(js[0], 0) + 1
        e.post("conventional atoms = primitive atoms modulo the primitive lattice (each primitive atom has `multiplicity` images)",
               okc and all(hits.get(j, 0) == mult for j in range(npm)), mk("atoms-congruent"))
        cell_same = all(bool(a == b) for a, b in zip(np.ravel(cc_cell), np.ravel(ds.std_lattice)))
        e.post("conventional lattice is the standardized lattice", cell_same, mk("conv-lattice"))
        if reuse:
            e.reach("H12:reuse")
        if not sup and not reuse:
            e.validate_with(lambda env: S.validate_against_real(sg, ds, env, S.tkey(np.asarray(an._best_transform["transformation"])), conv.get_scaled_positions(wrap=False),
                                                                 trip["conventional"][0], orig_order=orig_order))
        e.reach(f"H12:centring:{S.make_dataset.__name__ and __import__('spglib').get_spacegroup_type(RG.std_hall(sg)).international_short[0]}")
        e.reach("H12:supercell-original" if sup else "H12:cell-original")
        e.sample({"space_group": sg, "occupation": occ, "orig_order": ("2x1x1 supercell" + (", copies interleaved" if sup == "interleaved" else "")) if sup else ("reversed" if orig_order else "as standardized"), "primitive_vectors": [[str(v) for v in r] for r in Pq]})
    return fn


def orbit_bound(sg, tier):
    L = len(S.letters_of(sg))
    if tier == "quick":
        return 2 if L <= 12 else 1
    return 3 if L <= 8 else 2


def run_group(arg):
    sg, tier = arg
    occs = S.occupations(sg, orbit_bound(sg, tier), S.ELEMENTS)
    return sg, explore(make_fn(sg, occs), f"H12:sg{sg}", workers=1, timeout_ms=20000 if tier == "quick" else 60000, budget_s=3000 if tier == "quick" else 9000, precheck=True, validate_every=10), len(occs)


def main(tier, seed, only=None):
    import multiprocessing as mp
    rep = Report(PID, tier, seed)
    for f in (SA.SymmetryAnalyzer._get_primitive_system, SA.SymmetryAnalyzer.get_primitive_system, SA.SymmetryAnalyzer.get_wyckoff_letters_original,
              SA.SymmetryAnalyzer._get_spglib_primitive_to_original_mapping, SA.SymmetryAnalyzer._get_spglib_wyckoff_letters_primitive,
              SA.SymmetryAnalyzer._get_spglib_wyckoff_letters_conventional, SA.SymmetryAnalyzer._get_spglib_equivalent_atoms_conventional):
        rep.function(f)
    groups = [int(x) for x in only] if only else list(range(1, 231))
    order = sorted(groups, key=lambda g: -len(S.occupations(g, orbit_bound(g, tier), S.ELEMENTS)) * len(RG.group_ops(g)))
    nocc = 0
    with mp.get_context("fork").Pool(16) as pool:
        for sg, st, n in pool.imap_unordered(run_group, [(g, tier) for g in order], chunksize=1):
            rep.merge_stats(st, "H12")
            nocc += n
    if not only:
        rep.require_reached("H12:reuse", "H12:supercell-original", *[f"H12:centring:{c}" for c in "PACIFR"])
    rep.bounds = {"space_groups": len(groups), "occupations": nocc, "orbits": "quick: <= 2 orbits for groups with <= 12 Wyckoff letters, 1 otherwise; thorough: <= 3 / 2",
                  "original system": "the standardized cell with its atoms in standard or reversed order, or its 2x1x1 supercell listed cell by cell or with the copies of every atom interleaved (mappings consistent with that description); single-orbit crystals also after another crystal was analysed on the same analyzer object"}
    rep.stubs = ["SpglibContract dataset (mapping_to_primitive, std_mapping_to_primitive, crystallographic_orbits, wyckoffs consistent with the Hall-database orbits and centring classes)",
                 "StubAtoms / StubSystem", "numpy proxy (exact inverse)"]
    rep.assumptions = ["spglib's mappings are as documented", "centring translations of the standard setting = pure translations of the Hall-database group"]
    rep.outside = ["'is itself primitive / same space group' as judged by spglib (checked only in the concrete replay)", "original systems in sheared bases (enter only through spglib)"]
    return rep.finish()


def replay(d):
    msgs = conc_check(d["sg"], [tuple(o) for o in d["occupation"]], d["params"], d.get("orig_order"), d.get("supercell", False), d.get("reuse", False))
    return bool(msgs), "; ".join(msgs[:6]) or "ok"
