"""C20 — cell and frame helpers preserve the physical structure (Engine A)."""
import itertools
import math
from fractions import Fraction as F

import numpy as np
import z3

import matid.geometry.geometry as G
from lib.common import Report
from lib import cells as CELLS
from symx.engine import explore, Abort
from symx.values import SReal, SBool, to_obj, sym_array, const_array, zbool, lift
from symx.npproxy import NPProxy, patched, det3
from symx.stubs import StubAtoms, concrete

PID = "C20"
NP = NPProxy()
TOL = 1e-7


def sym_patch():
    return patched(G, np=NP, Atoms=StubAtoms)


def close(a, b, tol=TOL):
    a, b = np.asarray(a, dtype=float), np.asarray(b, dtype=float)
    return a.shape == b.shape and bool(np.all(np.abs(a - b) <= tol * (1 + np.abs(a) + np.abs(b))))


def tri_cell(e):
    """lower-triangular symbolic cell, non-singular (any cell is a rotation of one)"""
    c = const_array(np.zeros((3, 3)))
    for i in range(3):
        for j in range(i + 1):
            c[i, j] = e.real(f"c_{i}_{j}")
    e.assume(z3.And(c[0, 0].z3() > 0, c[1, 1].z3() > 0, c[2, 2].z3() > 0))
    return c


# =============================================================================== concrete oracles (replay + validation)
def conc_minimized(cell, pos, pbc, axis, min_size):
    """run the real get_minimized_cell on floats and evaluate the statement; returns (ok, text, outputs)"""
    from ase import Atoms
    cell, pos = np.array(cell, float), np.array(pos, float)
    at = Atoms(numbers=[1] * len(pos), positions=pos, cell=cell, pbc=pbc)
    try:
        out = G.get_minimized_cell(at, axis, min_size)
    except Exception as ex:
        return False, f"raised {type(ex).__name__}: {ex}", None
    p2, c2 = out.get_positions(), np.array(out.get_cell())
    msgs = []
    if not (list(out.get_atomic_numbers()) == [1] * len(pos) and list(out.get_pbc()) == list(pbc)):
        msgs.append("numbers/pbc changed")
    if not close(p2 - p2[0], pos - pos[0], 1e-6):
        msgs.append("mutual displacements changed")
    for r in range(3):
        if r != axis and not close(c2[r], cell[r]):
            msgs.append(f"cell row {r} changed")
    f0 = np.linalg.solve(cell.T, pos.T).T[:, axis]
    extent = (f0.max() - f0.min()) * np.linalg.norm(cell[axis])
    want = max(extent, min_size)
    if abs(np.linalg.norm(c2[axis]) - want) > 1e-6 * (1 + want):
        msgs.append(f"|new row| = {np.linalg.norm(c2[axis]):.9g}, expected max(extent, min_size) = {want:.9g}")
    cr = np.cross(c2[axis], cell[axis])
    if np.linalg.norm(cr) > 1e-6 * (1 + np.linalg.norm(c2[axis]) * np.linalg.norm(cell[axis])) or np.dot(c2[axis], cell[axis]) <= 0:
        msgs.append("new row not parallel / not equally oriented to the old one")
    f2 = np.linalg.solve(c2.T, p2.T).T[:, axis]
    if f2.min() < -1e-6 or f2.max() > 1 + 1e-6:
        msgs.append(f"atoms outside the cell along the axis: [{f2.min():.6g}, {f2.max():.6g}]")
    if extent < min_size - 1e-9 and abs(f2.min() + f2.max() - 1) > 1e-6:
        msgs.append("padded cell but atoms not centred")
    return not msgs, "; ".join(msgs) or "ok", (p2, c2)


# =============================================================================== H20a
def h20a(shape2d, m):
    def fn(e):
        cell = e.real_array("c", (3, 3))
        d = det3(cell)
        e.assume(d.rel(lambda a, b: a != b))
        pts = e.real_array("p", (m, 3)) if shape2d else e.real_array("p", (3,))
        with sym_patch():
            s = G.to_scaled(cell, pts.copy())
            back = G.to_cartesian(cell, s.copy())
            c2 = G.to_cartesian(cell, pts.copy())
            back2 = G.to_scaled(cell, c2.copy())
        ref = pts if shape2d else pts[None, :]
        e.post("shape", back.shape == ref.shape and back2.shape == ref.shape and s.shape == ref.shape)

        def cex(env):
            c, p = concrete(cell, env), concrete(pts, env)
            b = G.to_cartesian(c, G.to_scaled(c, p.copy()))
            b2 = G.to_scaled(c, G.to_cartesian(c, p.copy()))
            ok = close(b, np.atleast_2d(p), 1e-6) and close(b2, np.atleast_2d(p), 1e-6)
            return {"key": "H20a:roundtrip", "what": "to_cartesian(to_scaled(p)) != p or to_scaled(to_cartesian(s)) != s",
                    "replay": {"kind": "roundtrip", "cell": c, "points": p}, "reproduced": not ok}
        for idx in np.ndindex(*ref.shape):
            e.post("cart(scaled(p))==p", back[idx].eqz(ref[idx]), cex)
            e.post("scaled(cart(s))==s", back2[idx].eqz(ref[idx]), cex)
        e.sample({"cell": "fully symbolic 3x3, det != 0", "points": list(ref.shape)})

        def val(env):
            c, p = concrete(cell, env), concrete(pts, env)
            if abs(np.linalg.det(c)) < 1e-6:
                return None
            return True if close(G.to_scaled(c, p.copy()), concrete(s, env), 1e-6) else "to_scaled differs"
        e.validate_with(val)
    return fn


# =============================================================================== H20b
def h20b(cellname, pbc):
    cell_q = CELLS.FAMILY[cellname]

    def fn(e):
        cell = const_array(cell_q)
        fr = e.real_array("f", (2, 3), lo=-6, hi=6)
        pos = np.dot(fr, cell)
        with sym_patch():
            raw = G.to_scaled(cell, pos.copy(), wrap=False, pbc=pbc)
            w = G.to_scaled(cell, pos.copy(), wrap=True, pbc=pbc)
            s_in = fr.copy()
            cart = G.to_cartesian(cell, s_in, wrap=True, pbc=pbc)
            cart_raw = G.to_cartesian(cell, fr.copy(), wrap=False, pbc=pbc)
        back = G_solve(cell, cart)
        back_raw = G_solve(cell, cart_raw)

        def cex(env):
            c, p = concrete(cell, env), concrete(pos, env)
            r = G.to_scaled(c, p.copy(), wrap=True, pbc=pbc)
            u = G.to_scaled(c, p.copy(), wrap=False, pbc=pbc)
            d = r - u
            ok = True
            for k in range(3):
                if pbc[k]:
                    ok &= bool(np.all(np.abs(d[:, k] - np.round(d[:, k])) < 1e-7) and np.all(r[:, k] > -1e-9) and np.all(r[:, k] < 1 + 1e-9))
                else:
                    ok &= bool(np.all(np.abs(d[:, k]) < 1e-9))
            return {"key": f"H20b:wrap:{''.join('T' if x else 'F' for x in pbc)}", "what": "wrap changed a non-periodic component or moved a periodic one by a non-integer / out of [0,1)",
                    "replay": {"kind": "wrap", "cell": c, "positions": p, "pbc": list(pbc)}, "reproduced": not ok}
        for i in range(2):
            for k in range(3):
                for tag, res, ref in (("to_scaled", w, raw), ("to_cartesian", back, back_raw)):
                    dlt = res[i, k] - ref[i, k]
                    if pbc[k]:
                        e.post(f"{tag}: periodic component moved by an integer", z3.IsInt(dlt.z3()) if not dlt.is_const() else dlt.cval().denominator == 1, cex)
                        e.post(f"{tag}: periodic component in [0,1)", z3.And(res[i, k].rel(lambda a, b: a >= b), res[i, k].rel(lambda a, b: a < b, 1)), cex)
                    else:
                        e.post(f"{tag}: non-periodic component unchanged", dlt.eqz(), cex)
        e.post("unwrapped = fractional input", z3.And(*[raw[i, k].eqz(fr[i, k]) for i in range(2) for k in range(3)]), cex)
        e.sample({"cell": cellname, "pbc": list(pbc)})

        def val(env):
            c, p = concrete(cell, env), concrete(pos, env)
            fv = concrete(fr, env)
            if np.any(np.abs(fv - np.round(fv)) < 1e-6):
                return None
            return True if close(G.to_scaled(c, p.copy(), wrap=True, pbc=pbc), concrete(w, env), 1e-6) else "wrapped to_scaled differs"
        e.validate_with(val)
    return fn


def G_solve(cell, cart):
    from symx.npproxy import solve3
    return solve3(cell.T, cart.T).T


# =============================================================================== H20c
def h20c(cellname, nat, axis, pbc=(True, True, False)):
    def fn(e):
        if cellname == "tri":
            cell = tri_cell(e)
        elif cellname == "full":
            cell = e.real_array("c", (3, 3))
            e.assume(det3(cell).rel(lambda a, b: a != b))
        else:
            cell = const_array(CELLS.FAMILY[cellname])
        pos = e.real_array("p", (nat, 3))
        ms = e.real("min_size", lo=0, lo_strict=True)
        atoms = StubAtoms(cell=cell, positions=pos, numbers=[1] * nat, pbc=pbc)
        with sym_patch():
            out = G.get_minimized_cell(atoms, axis, ms)
        p2, c2 = out.get_positions(), out.get_cell()

        def cex(env):
            ok, text, _ = conc_minimized(concrete(cell, env), concrete(pos, env), pbc, axis, float(concrete(np.array([ms], dtype=object), env)[0]))
            return {"key": f"H20c:{cex.label}", "what": f"get_minimized_cell: {text}",
                    "replay": {"kind": "minimized", "cell": concrete(cell, env), "positions": concrete(pos, env), "pbc": list(pbc), "axis": axis,
                               "min_size": float(concrete(np.array([ms], dtype=object), env)[0])}, "reproduced": not ok}

        def post(label, cond):
            def c(env, label=label):
                cex.label = label
                return cex(env)
            e.post(label, cond, c)
        post("numbers and pbc kept", list(out.get_atomic_numbers()) == [1] * nat and list(out.get_pbc()) == list(pbc) and not atoms.mutations)
        post("mutual displacements identical", z3.And(*[(p2[i, k] - p2[0, k]).eqz(pos[i, k] - pos[0, k]) for i in range(1, nat) for k in range(3)]) if nat > 1 else True)
        post("other rows unchanged", z3.And(*[c2[r, k].eqz(cell[r, k]) for r in range(3) if r != axis for k in range(3)]))
        cr = np.cross(c2[axis], cell[axis])
        post("new row parallel and equally oriented", z3.And(*[v.eqz() for v in cr], np.dot(c2[axis], cell[axis]).rel(lambda a, b: a > b)))
        f0 = atoms.get_scaled_positions(wrap=False)[:, axis]
        L2 = np.dot(c2[axis], c2[axis])
        cl2 = np.dot(cell[axis], cell[axis])
        E = [((f0[i] - f0[j]) * (f0[i] - f0[j])) * cl2 for i in range(nat) for j in range(nat)]
        ms2 = ms * ms
        post("|new row| = max(extent, min_size)",
             z3.And(L2.rel(lambda a, b: a >= b, ms2), *[L2.rel(lambda a, b: a >= b, x) for x in E],
                    z3.Or(L2.eqz(ms2), *[L2.eqz(x) for x in E])))
        f2 = out.get_scaled_positions(wrap=False)[:, axis]
        post("all atoms inside along the axis", z3.And(*[z3.And(v.rel(lambda a, b: a >= b), v.rel(lambda a, b: a <= b, 1)) for v in f2]))
        padded = z3.And(*[x.rel(lambda a, b: a < b, ms2) for x in E])
        centred = z3.Or(*[z3.And(*[f2[i].rel(lambda a, b: a <= b, f2[k]) for k in range(nat)], *[f2[j].rel(lambda a, b: a >= b, f2[k]) for k in range(nat)],
                                 (f2[i] + f2[j]).eqz(1)) for i in range(nat) for j in range(nat)])
        post("centred when padded", z3.Implies(padded, centred))
        # must-reach witnesses
        s = e.solver
        if e.check(padded) == "sat":
            e.reach("H20c:padded")
        if e.check(z3.Not(padded)) == "sat":
            e.reach("H20c:not-padded")
        if e.check(z3.And(*[x.eqz() for x in E])) == "sat":
            e.reach("H20c:single-layer")
        e.sample({"cell": cellname, "atoms": nat, "axis": axis})

        def val(env):
            msv = float(concrete(np.array([ms], dtype=object), env)[0])
            c = concrete(cell, env)
            if abs(np.linalg.det(c)) < 1e-6:
                return None
            ok, text, outs = conc_minimized(c, concrete(pos, env), pbc, axis, msv)
            if outs is None:
                return "real code raised: " + text
            f0v = np.linalg.solve(c.T, concrete(pos, env).T).T[:, axis]
            ext = (f0v.max() - f0v.min()) * np.linalg.norm(c[axis])
            if abs(ext - msv) < 1e-6 * (1 + msv) or len(set(np.round(f0v, 9))) < len(f0v):
                return None
            return True if close(outs[0], concrete(p2, env), 1e-6) and close(outs[1], concrete(c2, env), 1e-6) else "positions/cell differ from the symbolic run"
        e.validate_with(val)
    return fn


# =============================================================================== H20d
def h20d(a, b, pbc):
    def fn(e):
        cell = e.real_array("c", (3, 3))
        pos = e.real_array("p", (2, 3))
        at = StubAtoms(cell=cell, positions=pos, numbers=[1, 2], pbc=pbc)
        with sym_patch():
            G.swap_basis(at, a, b)
        c2, pb2 = at.get_cell(), at.get_pbc()
        perm = list(range(3))
        perm[a], perm[b] = perm[b], perm[a]

        def cex(env):
            from ase import Atoms
            c, p = concrete(cell, env), concrete(pos, env)
            x = Atoms(numbers=[1, 2], positions=p, cell=c, pbc=pbc)
            G.swap_basis(x, a, b)
            ok = close(np.array(x.get_cell()), c[perm]) and list(x.get_pbc()) == [pbc[i] for i in perm] and close(x.get_positions(), p)
            return {"key": f"H20d:swap:{a}{b}", "what": f"swap_basis({a},{b}) with pbc={list(pbc)} does not exchange the two vectors and flags (or moves atoms)",
                    "replay": {"kind": "swap", "cell": c, "positions": p, "pbc": list(pbc), "a": a, "b": b}, "reproduced": not ok}
        e.post("rows exchanged", z3.And(*[c2[i, k].eqz(cell[perm[i], k]) for i in range(3) for k in range(3)]), cex)
        e.post("pbc exchanged", list(pb2) == [pbc[i] for i in perm], cex)
        e.post("positions untouched", z3.And(*[at.positions[i, k].eqz(pos[i, k]) for i in range(2) for k in range(3)]), cex)
        e.post("numbers untouched", list(at.numbers) == [1, 2], cex)
        e.sample({"a": a, "b": b, "pbc": list(pbc)})
        e.validate_with(lambda env: True if not cex(env)["reproduced"] else "real swap_basis disagrees")
    return fn


# =============================================================================== H20e
def h20e(concrete_b=None):
    def fn(e):
        a = e.real_array("a", (3,))
        b = e.real_array("b", (3,)) if concrete_b is None else const_array(concrete_b)
        length = e.real("length", lo=0, lo_strict=True)
        cr = np.cross(a, b)
        e.assume(z3.Or(*[v.rel(lambda x, y: x != y) for v in cr]))
        with sym_patch():
            c = G.complete_cell(a, b, length)

        def cex(env):
            av, bv, lv = concrete(a, env), concrete(b, env), float(concrete(np.array([length], dtype=object), env)[0])
            r = G.complete_cell(av, bv, lv)
            ok = r.shape == (1, 3) and abs(np.dot(r[0], av)) < 1e-7 * (1 + lv * np.linalg.norm(av)) and abs(np.dot(r[0], bv)) < 1e-7 * (1 + lv * np.linalg.norm(bv)) \
                and abs(np.linalg.norm(r[0]) - lv) < 1e-7 * (1 + lv)
            return {"key": "H20e:complete_cell", "what": "complete_cell result is not orthogonal to both inputs with the requested length and shape (1,3)",
                    "replay": {"kind": "complete", "a": av, "b": bv, "length": lv}, "reproduced": not ok}
        e.post("shape (1,3)", c.shape == (1, 3), cex)
        if c.shape == (1, 3):
            e.post("orthogonal to a", np.dot(c[0], a).eqz(), cex)
            e.post("orthogonal to b", np.dot(c[0], b).eqz(), cex)
            e.post("|c| = length", np.dot(c[0], c[0]).eqz(length * length), cex)
        e.sample({"a": "symbolic", "b": "symbolic" if concrete_b is None else concrete_b})
        e.validate_with(lambda env: True if not cex(env)["reproduced"] else "real complete_cell disagrees")
    return fn


# =============================================================================== H20f / H20g (trig and eigh by contract)
class UF:
    """uninterpreted functions for cos/sin/arctan2 (congruence only)"""

    def __init__(self, e):
        self.e = e
        self.COS = z3.Function("COS", z3.RealSort(), z3.RealSort())
        self.SIN = z3.Function("SIN", z3.RealSort(), z3.RealSort())
        self.AT2 = z3.Function("ATAN2", z3.RealSort(), z3.RealSort(), z3.RealSort())

    def _app(self, f, *args):
        if all(a.is_const() for a in args) and False:
            pass
        r = SReal.sym(f"uf!{next(self.e.fresh)}")
        self.e.assume(r.z3() == f(*[a.z3() for a in args]))
        return r

    def cos(self, v):
        return self._app(self.COS, v)

    def sin(self, v):
        return self._app(self.SIN, v)

    def arctan2(self, a, b):
        a = a if isinstance(a, SReal) else SReal(*lift(a))
        b = b if isinstance(b, SReal) else SReal(*lift(b))
        return self._app(self.AT2, a, b)


def conc_com(cell, pos, numbers, pbc):
    from ase import Atoms
    return G.get_center_of_mass(Atoms(numbers=numbers, positions=pos, cell=cell, pbc=pbc))


def h20f(cellname, pbc, nat=2):
    cell_q = CELLS.FAMILY[cellname]
    numbers = [6, 14, 8][:nat]

    def fn(e):
        uf = UF(e)
        NPProxy.hooks.update(cos=uf.cos, sin=uf.sin, arctan2=uf.arctan2)
        try:
            cell = const_array(cell_q)
            fr = e.real_array("f", (nat, 3), lo=-3, hi=3)
            # symbolic masses only where the result is polynomial in them; with a periodic axis they multiply the
            # uninterpreted cos/sin terms (non-linear), so a fixed rational mass vector is used there
            masses = e.real_array("m", (nat,), lo=F(1, 2), hi=250) if not any(pbc) else const_array([F(12011, 1000), F(28085, 1000), F(15999, 1000)][:nat])
            shifts = np.empty((nat, 3), dtype=object)
            for i in range(nat):
                for k in range(3):
                    shifts[i, k] = e.int(f"n_{i}_{k}", -5, 5) if pbc[k] else SReal.const(0)
            t_rel = e.real_array("t", (3,), lo=-2, hi=2)
            at1 = StubAtoms(cell=cell, scaled_positions=fr, numbers=numbers, pbc=pbc, masses=masses)
            at2 = StubAtoms(cell=cell, scaled_positions=fr + shifts, numbers=numbers, pbc=pbc, masses=masses)
            at3 = StubAtoms(cell=cell, scaled_positions=fr + t_rel[None, :], numbers=numbers, pbc=pbc, masses=masses)
            with sym_patch():
                c1 = G.get_center_of_mass(at1)
                c2 = G.get_center_of_mass(at2)
                c3 = G.get_center_of_mass(at3)
        finally:
            NPProxy.hooks.clear()
        r1, r2, r3 = (G_solve(cell, c[None, :])[0] for c in (c1, c2, c3))
        tot = sum(masses)

        def cex(env):
            c, f, m = concrete(cell, env), concrete(fr, env), concrete(masses, env)
            sh, tr = concrete(shifts, env), concrete(t_rel, env)
            from ase import Atoms

            def com(fv):
                a = Atoms(numbers=numbers, positions=fv.dot(c), cell=c, pbc=pbc)
                a.set_masses(m)
                return np.linalg.solve(c.T, G.get_center_of_mass(a))
            k1, k2, k3 = com(f), com(f + sh), com(f + tr)
            msgs = []
            for k in range(3):
                if pbc[k]:
                    d = (k2[k] - k1[k]) % 1
                    if min(d, 1 - d) > 1e-6:
                        msgs.append(f"component {k} changed by lattice shifts of atoms")
                else:
                    if abs(k1[k] - np.sum(f[:, k] * m) / m.sum()) > 1e-7:
                        msgs.append(f"non-periodic component {k} is not the mass-weighted mean")
                    if abs(k3[k] - k1[k] - tr[k]) > 1e-7:
                        msgs.append(f"non-periodic component {k} does not follow the translation")
            return {"key": f"H20f:com:{''.join('T' if x else 'F' for x in pbc)}", "what": "get_center_of_mass: " + "; ".join(msgs),
                    "replay": {"kind": "com", "cell": c, "scaled": f, "masses": m, "shifts": sh, "translation": tr, "pbc": list(pbc), "numbers": numbers},
                    "reproduced": bool(msgs)}
        for k in range(3):
            if pbc[k]:
                e.post(f"periodic component {k} ignores lattice shifts of atoms", r1[k].eqz(r2[k]), cex)
            else:
                e.post(f"non-periodic component {k} = mass-weighted mean", (r1[k] * tot).eqz(sum(fr[i, k] * masses[i] for i in range(nat))), cex)
                e.post(f"non-periodic component {k} follows a translation", (r3[k] - r1[k]).eqz(t_rel[k]), cex)
        e.sample({"cell": cellname, "pbc": list(pbc), "atoms": nat})
        e.validate_with(lambda env: True if not cex(env)["reproduced"] else "real get_center_of_mass violates the statement on this witness")
    return fn


def h20g(weight, nat=2):
    numbers = [6, 14, 8][:nat]

    def fn(e):
        rec = {}

        def eigh(A):
            rec["A"] = np.array(A, dtype=object)
            return sym_array("eval", (3,)), sym_array("evec", (3, 3))
        NPProxy.hooks["eigh"] = eigh
        try:
            cell = const_array(CELLS.ORTHO)
            pos = e.real_array("p", (nat, 3))
            masses = e.real_array("m", (nat,), lo=F(1, 2), hi=250)
            at = StubAtoms(cell=cell, positions=pos, numbers=numbers, pbc=(False, False, False), masses=masses)
            exc = None
            with sym_patch():
                try:
                    res = G.get_moments_of_inertia(at, weight=weight)
                except (TypeError, AttributeError, NameError, ValueError) as ex:
                    exc = ex
                com = G.get_center_of_mass(at)
        finally:
            NPProxy.hooks.clear()

        def cex(env):
            from ase import Atoms
            p, m = concrete(pos, env), concrete(masses, env)
            a = Atoms(numbers=numbers, positions=p, cell=np.array(CELLS.ORTHO, float), pbc=False)
            a.set_masses(m)
            try:
                ev, evec = G.get_moments_of_inertia(a, weight=weight)
            except Exception as ex:
                return {"key": f"H20g:raises:{type(ex).__name__}", "what": f"get_moments_of_inertia(weight={weight}) raises {type(ex).__name__}: {ex}",
                        "replay": {"kind": "inertia", "positions": p, "masses": m, "weight": weight, "numbers": numbers}, "reproduced": True}
            w = m if weight else np.ones(len(p))
            r = p - G.get_center_of_mass(a)
            I = sum(w[k] * (np.dot(r[k], r[k]) * np.eye(3) - np.outer(r[k], r[k])) for k in range(len(p)))
            ref = np.linalg.eigvalsh(I)
            ok = close(np.sort(ev), ref, 1e-6) and close(evec @ np.diag(ev) @ evec.T, I, 1e-6)
            return {"key": f"H20g:tensor:weight={weight}", "what": "get_moments_of_inertia is not the eigen-decomposition of the inertia tensor about the centre of mass",
                    "replay": {"kind": "inertia", "positions": p, "masses": m, "weight": weight, "numbers": numbers}, "reproduced": not ok}
        if exc is not None:
            e.post("returns normally", False, cex)
            e.sample({"weight": weight, "exception": repr(exc)})
            return
        e.post("returns eigh's result", isinstance(res, tuple) and len(res) == 2, cex)
        A = rec.get("A")
        e.post("eigh called on a 3x3 tensor", A is not None and A.shape == (3, 3), cex)
        if A is not None and A.shape == (3, 3):
            w = masses if weight else [SReal.const(1)] * nat
            r = pos - com
            for i in range(3):
                for j in range(3):
                    ref = sum(w[k] * ((np.dot(r[k], r[k]) if i == j else 0) - r[k][i] * r[k][j]) for k in range(nat))
                    e.post(f"tensor[{i}][{j}]", A[i, j].eqz(ref), cex)
        e.sample({"weight": weight, "atoms": nat})
        e.validate_with(lambda env: True if not cex(env)["reproduced"] else "real get_moments_of_inertia violates the statement on this witness")
    return fn


# =============================================================================== driver
def plan(tier):
    jobs = []
    jobs += [("H20a", f"H20a:2d:m{m}", h20a(True, m)) for m in ((1, 2) if tier == "quick" else (1, 2, 3))]
    jobs += [("H20a", "H20a:1d", h20a(False, 1))]
    cells_b = CELLS.QUICK if tier == "quick" else ["ortho", "pyth", "shear", "rot", "plate"]
    jobs += [("H20b", f"H20b:{c}:{''.join('T' if x else 'F' for x in pbc)}", h20b(c, pbc)) for c in cells_b for pbc in CELLS.PBCS]
    if tier == "quick":
        jobs += [("H20c", f"H20c:tri:n{n}:ax{ax}", h20c("tri", n, ax)) for ax in (0, 1, 2) for n in (2, 3)]
        jobs += [("H20c", f"H20c:pyth:n3:ax{ax}", h20c("pyth", 3, ax)) for ax in (0, 1, 2)]
        jobs += [("H20c", "H20c:rot:n1:ax2", h20c("rot", 1, 2))]
    else:
        jobs += [("H20c", f"H20c:tri:n{n}:ax{ax}", h20c("tri", n, ax)) for ax in (0, 1, 2) for n in (1, 2, 3)]
        jobs += [("H20c", f"H20c:{c}:n3:ax{ax}", h20c(c, 3, ax)) for ax in (0, 1, 2) for c in ("pyth", "rot", "shear", "ortho")]
        jobs += [("H20c", f"H20c:pyth:n4:ax{ax}", h20c("pyth", 4, ax)) for ax in (2,)]
        jobs += [("H20c", f"H20c:full:n1:ax{ax}", h20c("full", 1, ax)) for ax in (0, 1, 2)]     # 9-parameter symbolic cell: one atom only
    jobs += [("H20d", f"H20d:{a}{b}:{''.join('T' if x else 'F' for x in pbc)}", h20d(a, b, pbc)) for a in range(3) for b in range(3) for pbc in CELLS.PBCS]
    jobs += [("H20e", "H20e:b=(0,3,4)", h20e([0, 3, 4])), ("H20e", "H20e:b=(2,-6,9)", h20e([2, -6, 9]))]
    if tier == "thorough":
        jobs += [("H20e", "H20e:symbolic", h20e(None))]
    cells_f = ["ortho"] if tier == "quick" else ["ortho", "pyth", "shear"]
    # 3 atoms on the orthogonal and Pythagorean cells; the strongly sheared cell with 2 (3 atoms x 3 periodic axes there gave one `unknown`)
    jobs += [("H20f", f"H20f:{c}:{''.join('T' if x else 'F' for x in pbc)}", h20f(c, pbc, 2 if (tier == "quick" or c == "shear") else 3)) for c in cells_f for pbc in CELLS.PBCS]
    jobs += [("H20g", f"H20g:weight={w}", h20g(w, 2 if tier == "quick" else 3)) for w in (True, False)]
    return jobs


def main(tier, seed, only=None):
    rep = Report(PID, tier, seed)
    for f in (G.to_scaled, G.to_cartesian, G.expand_pbc, G.get_minimized_cell, G.swap_basis, G.complete_cell, G.get_center_of_mass, G.get_moments_of_inertia):
        rep.function(f)
    jobs = plan(tier)
    if only:
        jobs = [j for j in jobs if any(j[1].startswith(o) for o in only)]
    # one job per task in a pool of processes; the jobs with many paths first
    import multiprocessing as mp
    global _JOBS
    _JOBS = {j[1]: j for j in jobs}
    order = sorted(jobs, key=lambda j: (j[0] != "H20c", "n3" not in j[1], j[0] != "H20f"))
    with mp.get_context("fork").Pool(16) as pool:
        for name, st in pool.imap_unordered(_run_light, [j[1] for j in order], chunksize=1):
            rep.merge_stats(st, _JOBS[name][0])
    if not only:
        rep.require_reached("H20c:padded", "H20c:not-padded", "H20c:single-layer")
    rep.bounds = {"atoms": "H20a <= 2 (3 thorough) points; H20c 2 atoms on the lower-triangular symbolic cell, 3 on rational cells (thorough: 3 and 4); H20f/g 2 atoms (3 thorough)",
                  "cells": "H20a/H20d/H20e fully symbolic; H20c lower-triangular symbolic (6 parameters) + rational family; H20b/H20f rational family " + str(CELLS.QUICK if tier == "quick" else list(CELLS.FAMILY)),
                  "pbc": "all 8 combinations (H20b, H20d, H20f)", "axes": [0, 1, 2], "min_size": "symbolic > 0", "lattice shifts": "|n| <= 5 per periodic axis (H20f)"}
    rep.stubs = ["StubAtoms for ase.Atoms", "numpy proxy: linalg.solve/inv by Cramer over rational functions, norm/sqrt with perfect-square extraction",
                 "cos/sin/arctan2 as uninterpreted functions (H20f)", "np.linalg.eigh records its argument and returns fresh symbols (H20g)"]
    rep.assumptions = ["exact real arithmetic (no rounding)", "cell non-singular", "masses in [0.5, 250]"]
    rep.outside = ["translation covariance of the *periodic* components of the centre of mass (needs angle addition)", "floating-point rounding",
                   "more atoms than stated", "9-parameter symbolic cell in get_minimized_cell with 2 or more atoms (did not finish in 14 min; one atom is in the thorough tier); the triangular cell covers every cell up to rotation"]
    return rep.finish()


def _run_light(name):
    fam, _, fn = _JOBS[name]
    return name, explore(fn, name, workers=1, timeout_ms=30000, budget_s=900, logic="nra" if fam in ("H20a", "H20c", "H20d", "H20e", "H20g") else "lira")


def replay(d):
    k = d["kind"]
    if k == "minimized":
        ok, text, _ = conc_minimized(d["cell"], d["positions"], d["pbc"], d["axis"], d["min_size"])
        return not ok, text
    if k == "inertia":
        from ase import Atoms
        a = Atoms(numbers=d["numbers"], positions=np.array(d["positions"], float), cell=np.array(CELLS.ORTHO, float), pbc=False)
        a.set_masses(np.array(d["masses"], float))
        try:
            ev, evec = G.get_moments_of_inertia(a, weight=d["weight"])
        except Exception as ex:
            return True, f"get_moments_of_inertia raises {type(ex).__name__}: {ex}"
        w = np.array(d["masses"], float) if d["weight"] else np.ones(len(a))
        r = a.get_positions() - G.get_center_of_mass(a)
        I = sum(w[k] * (np.dot(r[k], r[k]) * np.eye(3) - np.outer(r[k], r[k])) for k in range(len(a)))
        ok = close(np.sort(ev), np.linalg.eigvalsh(I), 1e-6)
        return not ok, "eigenvalues differ from the inertia tensor's" if not ok else "ok"
    if k == "swap":
        from ase import Atoms
        c, p = np.array(d["cell"], float), np.array(d["positions"], float)
        x = Atoms(numbers=[1, 2], positions=p, cell=c, pbc=d["pbc"])
        G.swap_basis(x, d["a"], d["b"])
        perm = list(range(3))
        perm[d["a"]], perm[d["b"]] = perm[d["b"]], perm[d["a"]]
        ok = close(np.array(x.get_cell()), c[perm]) and list(x.get_pbc()) == [d["pbc"][i] for i in perm] and close(x.get_positions(), p)
        return not ok, "swap_basis result wrong" if not ok else "ok"
    if k == "roundtrip":
        c, p = np.array(d["cell"], float), np.array(d["points"], float)
        ok = close(G.to_cartesian(c, G.to_scaled(c, p.copy())), np.atleast_2d(p), 1e-6)
        return not ok, "round trip differs" if not ok else "ok"
    if k == "wrap":
        c, p, pbc = np.array(d["cell"], float), np.array(d["positions"], float), d["pbc"]
        r, u = G.to_scaled(c, p.copy(), wrap=True, pbc=pbc), G.to_scaled(c, p.copy(), wrap=False, pbc=pbc)
        dd = r - u
        ok = all((np.all(np.abs(dd[:, k] - np.round(dd[:, k])) < 1e-7) and np.all(r[:, k] > -1e-9) and np.all(r[:, k] < 1 + 1e-9)) if pbc[k] else np.all(np.abs(dd[:, k]) < 1e-9) for k in range(3))
        return not ok, "wrap wrong" if not ok else "ok"
    if k == "complete":
        r = G.complete_cell(np.array(d["a"], float), np.array(d["b"], float), d["length"])
        ok = r.shape == (1, 3) and abs(np.linalg.norm(r[0]) - d["length"]) < 1e-7 * (1 + d["length"]) and abs(np.dot(r[0], d["a"])) < 1e-6 and abs(np.dot(r[0], d["b"])) < 1e-6
        return not ok, "complete_cell wrong" if not ok else "ok"
    if k == "com":
        from ase import Atoms
        c, f, m = np.array(d["cell"], float), np.array(d["scaled"], float), np.array(d["masses"], float)
        sh, tr, pbc = np.array(d["shifts"], float), np.array(d["translation"], float), d["pbc"]

        def com(fv):
            a = Atoms(numbers=d["numbers"], positions=fv.dot(c), cell=c, pbc=pbc)
            a.set_masses(m)
            return np.linalg.solve(c.T, G.get_center_of_mass(a))
        k1, k2, k3 = com(f), com(f + sh), com(f + tr)
        bad = []
        for i in range(3):
            if pbc[i]:
                dd = (k2[i] - k1[i]) % 1
                if min(dd, 1 - dd) > 1e-6:
                    bad.append(f"component {i} changed by lattice shifts")
            elif abs(k1[i] - np.sum(f[:, i] * m) / m.sum()) > 1e-7 or abs(k3[i] - k1[i] - tr[i]) > 1e-7:
                bad.append(f"non-periodic component {i} wrong")
        return bool(bad), "; ".join(bad) or "ok"
    return False, "unknown replay kind"
