"""Engine C orchestration: compile the real matid/ext sources against the symbolic scalar, run the harness binaries over
a list of configurations in parallel, parse their JSON lines, replay counterexamples natively."""
import atexit
import json
import os
import shutil
import subprocess
import tempfile
import time
from concurrent.futures import ThreadPoolExecutor
from fractions import Fraction as F

import numpy as np

from lib.common import VERIF, REPO

CXX = os.path.join(VERIF, "cxxsym")
EXT = os.path.join(REPO, "matid", "ext")
_BUILD = None


def z3_dir():
    import z3
    return os.path.dirname(z3.__file__)


def build_dir():
    global _BUILD
    if _BUILD is None:
        _BUILD = tempfile.mkdtemp(prefix="verif-cxx-")
        atexit.register(lambda: shutil.rmtree(_BUILD, ignore_errors=True))
    return _BUILD


def compile_all(names=("h16a", "h16b", "h10a", "replay_native")):
    """every run recompiles from /repo's current sources; returns {name: (path|None, log)}"""
    Z3 = z3_dir()
    out = {}

    def one(name):
        exe = os.path.join(build_dir(), name)
        cmd = ["g++", "-std=c++17", "-O1", "-D_GLIBCXX_ASSERTIONS", "-I", os.path.join(CXX, "shim"), "-I", CXX, "-I", EXT]
        if name != "replay_native":
            cmd += ["-I", os.path.join(Z3, "include")]
        cmd += [os.path.join(CXX, name + ".cpp"), "-o", exe]
        if name != "replay_native":
            cmd += ["-L", os.path.join(Z3, "lib"), "-lz3", "-Wl,-rpath," + os.path.join(Z3, "lib")]
        p = subprocess.run(cmd, capture_output=True, text=True)
        return name, (exe if p.returncode == 0 else None), p.stderr[-3000:]
    with ThreadPoolExecutor(4) as ex:
        for name, exe, log in ex.map(one, names):
            out[name] = (exe, log)
    return out


def run_configs(exe, configs, workers=16, timeout_s=3000):
    """configs: list of argv lists.  Returns list of dicts: summary + cex + unknown + errors per config."""
    def one(args):
        t0 = time.time()
        try:
            p = subprocess.run([exe] + [str(a) for a in args], capture_output=True, text=True, timeout=timeout_s)
            lines, rc, err = p.stdout.splitlines(), p.returncode, p.stderr[-600:]
        except subprocess.TimeoutExpired as ex:
            lines, rc, err = (ex.stdout or b"").decode(errors="replace").splitlines() if isinstance(ex.stdout, bytes) else [], -9, "timeout"
        res = {"args": args, "rc": rc, "stderr": err, "cex": [], "unknown": [], "errors": [], "summary": None, "wall_s": time.time() - t0}
        for ln in lines:
            try:
                d = json.loads(ln)
            except Exception:
                continue
            if d.get("type") == "summary":
                res["summary"] = d
            elif d.get("type") == "cex":
                res["cex"].append(d)
            elif d.get("type") == "unknown":
                res["unknown"].append(d)
            elif d.get("type") == "error":
                res["errors"].append(d)
        return res
    with ThreadPoolExecutor(workers) as ex:
        return list(ex.map(one, configs))


def merge_into(rep, results, fam):
    """fold harness-binary results into a Report; returns the list of (config result, cex) to be replayed"""
    todo = []
    st = {"paths": 0, "forks": 0, "obligations": 0, "discharged": 0, "validated": 0, "queries": {"unsat": 0, "sat": 0, "unknown": 0}, "solver_s": 0.0, "wall_s": 0.0,
          "samples": [], "reach": {}, "inconclusive": [], "harness_errors": [], "violations": []}
    for r in results:
        s = r["summary"]
        cfg = " ".join(str(a) for a in r["args"])
        if s is None:
            st["harness_errors"].append(f"{fam} [{cfg}]: harness binary ended without a summary (rc={r['rc']}): {r['stderr'][-300:]}")
            continue
        st["paths"] += s["paths"]
        st["forks"] += s["forks"]
        st["obligations"] += s["obligations"]
        st["discharged"] += s["discharged"]
        st["queries"]["unsat"] += s["discharged"]
        st["queries"]["sat"] += max(0, s["checks"] - s["discharged"] - s["unknown"])
        st["queries"]["unknown"] += s["unknown"]
        st["solver_s"] += s["solver_s"]
        st["wall_s"] += s["wall_s"]
        for k, v in s.get("reach", {}).items():
            st["reach"][fam + ":" + k.split(":")[0]] = st["reach"].get(fam + ":" + k.split(":")[0], 0) + v
        if s["truncated"]:
            st["inconclusive"].append(f"{fam} [{cfg}]: exploration truncated by its budget after {s['paths']} paths")
        if s["paths"] == 0:
            st["harness_errors"].append(f"{fam} [{cfg}]: vacuity: no feasible path")
        for u in r["unknown"][:3]:
            st["inconclusive"].append(f"{fam} [{cfg}]: solver unknown: {u.get('label', '')[:160]}")
        for e_ in r["errors"][:3]:
            st["harness_errors"].append(f"{fam} [{cfg}]: {e_.get('what', '')[:200]}")
        if len(st["samples"]) < 3:
            st["samples"].append({"harness": fam, "config": cfg, "paths": s["paths"], "obligations": s["obligations"], "reach": s.get("reach", {})})
        for c in r["cex"]:
            todo.append((r, c))
    rep.merge_stats(st, fam)
    return todo


def frac(s):
    """z3 numeral string -> Fraction ('(/ 3.0 2.0)', '(- (/ 1.0 4.0))', '1.5', '2')"""
    s = s.strip()
    if s.startswith("(-"):
        return -frac(s[2:-1])
    if s.startswith("(/"):
        a, b = s[2:-1].split()
        return F(a.rstrip("?")) / F(b.rstrip("?"))
    return F(s.rstrip("?"))


CELLS = {
    "ortho": [[3, 0, 0], [0, 4, 0], [0, 0, 5]], "tricl": [[3, 0, 0], [1, 4, 0], [-1, 2, 5]], "pyth": [[2, 3, 6], [-1, 4, 8], [2, -6, 9]],
    "shear": [[2, 0, 0], [14, 2, 0], [-6, 10, 2]], "rot": [[F(6, 7), F(9, 7), F(18, 7)], [F(12, 7), F(-24, 7), F(8, 7)], [F(30, 7), F(10, 7), F(-15, 7)]],
    "needle": [[1, 0, 0], [0, 1, 0], [0, 0, 30]], "plate": [[12, 0, 0], [5, 12, 0], [0, 0, F(1, 2)]],
    "zero_c": [[3, 0, 0], [1, 4, 0], [0, 0, 0]], "zero_ab": [[0, 0, 0], [0, 0, 0], [-1, 2, 5]], "zero_abc": [[0, 0, 0]] * 3,
}


def native(exe, args):
    p = subprocess.run([exe] + [str(a) for a in args], capture_output=True, text=True, timeout=120)
    if p.returncode != 0:
        return {"exception": f"native driver crashed (rc={p.returncode}): {p.stderr[-300:]}"}
    try:
        return json.loads(p.stdout.splitlines()[-1])
    except Exception:
        return {"exception": "native driver produced no output: " + p.stderr[-300:]}


def fl(v):
    return float("inf") if v == "inf" else float(v)


# ------------------------------------------------------------------------------------- concrete oracles
def oracle_ext(native_exe, cell, pbc, cut, fpos):
    """extend_system on concrete input: soundness + completeness by brute force"""
    C = np.array([[float(v) for v in row] for row in cell], dtype=float)
    pos = np.array(fpos, dtype=float) @ C
    n = len(pos)
    out = native(native_exe, ["ext"] + list(C.ravel()) + [int(b) for b in pbc] + [cut, n] + list(pos.ravel()))
    if "exception" in out:
        return [f"extend_system raised: {out['exception']}"], out
    P = np.array(out["positions"]).reshape(-1, 3)
    Fc = np.array(out["factors"]).reshape(-1, 3)
    I = np.array(out["indices"], dtype=int)
    msgs = []
    if len(P) < n or list(I[:n]) != list(range(n)) or np.abs(Fc[:n]).max(initial=0) != 0 or not np.allclose(P[:n], pos):
        msgs.append("original atoms are not first with zero offset")
    if np.abs(Fc - np.round(Fc)).max(initial=0) > 0:
        msgs.append("non-integer cell offsets")
    zero = [not C[i].any() for i in range(3)]
    for k in range(3):
        if (not pbc[k] or zero[k]) and np.abs(Fc[:, k]).max(initial=0) != 0:
            msgs.append(f"offset along non-periodic / zero-length axis {k}")
    if not np.allclose(P, pos[I] + Fc @ C, atol=1e-9):
        msgs.append("position != original + offset.cell")
    keys = [(int(i),) + tuple(int(v) for v in f) for i, f in zip(I, Fc)]
    if len(set(keys)) != len(keys):
        msgs.append("an image appears twice")
    # completeness: omitted offsets whose cell comes strictly within the cutoff of the cell (box-constrained QP)
    from scipy.optimize import minimize
    have = {k[1:] for k in keys}
    N = [int(np.abs(Fc[:, k]).max(initial=0)) for k in range(3)]
    rng = [range(-N[k] - 2, N[k] + 3) if (pbc[k] and not zero[k]) else [0] for k in range(3)]
    G = C @ C.T
    for a in rng[0]:
        for b in rng[1]:
            for g in rng[2]:
                if (a, b, g) in have:
                    continue
                lo, hi = np.array([a, b, g]) - 1.0, np.array([a, b, g]) + 1.0
                best = None
                for x0 in (np.clip(np.zeros(3), lo, hi), (lo + hi) / 2):
                    r = minimize(lambda t: t @ G @ t, x0, jac=lambda t: 2 * G @ t, bounds=list(zip(lo, hi)), method="L-BFGS-B")
                    best = r.fun if best is None else min(best, r.fun)
                if best < cut * cut * (1 - 1e-9) - 1e-12:
                    msgs.append(f"image cell with offset {(a, b, g)} comes within {best ** 0.5:.6g} < cutoff {cut} of the cell but is not in the extended system")
                    if len(msgs) > 4:
                        return msgs, out
    return msgs, out


def oracle_cl(native_exe, cut, q, pts, exact=None):
    """exact: (cut, q, pts) as Fractions when every input is exactly representable as a double - the boundary case
    distance == cutoff is then decided exactly; otherwise a relative margin of 1e-12 is left around the cutoff"""
    out = native(native_exe, ["cl", repr(float(cut))] + [repr(float(v)) for v in q] + [len(pts)] + [repr(float(v)) for p in pts for v in p])
    if "exception" in out:
        return [f"CellList raised: {out['exception']}"], out
    got = [int(i) for i in out["indices"]]
    msgs = []
    if exact is not None and all(F(float(v)) == v for v in [exact[0]] + list(exact[1]) + [x for p in exact[2] for x in p]):
        ec, eq, ep = exact
        for l in range(len(ep)):
            d2 = sum((a - b) ** 2 for a, b in zip(eq, ep[l]))
            c = got.count(l)
            if d2 <= ec * ec and c != 1:
                msgs.append(f"point {l} at squared distance {float(d2)} <= cutoff^2 {float(ec * ec)} (exact arithmetic) returned {c} times")
            if d2 > ec * ec and c != 0:
                msgs.append(f"point {l} at squared distance {float(d2)} > cutoff^2 {float(ec * ec)} (exact arithmetic) was returned")
    pts, q = np.array(pts, float), np.array(q, float)
    d = np.linalg.norm(q - pts, axis=1)
    for l in range(len(pts)):
        c = got.count(l)
        if d[l] <= cut * (1 - 1e-12) and c != 1:
            msgs.append(f"point {l} at distance {d[l]:.9g} <= cutoff {cut} returned {c} times")
        if d[l] > cut * (1 + 1e-12) and c != 0:
            msgs.append(f"point {l} at distance {d[l]:.9g} beyond the cutoff {cut} was returned")
    disp = np.array(out["displacements"]).reshape(-1, 3)
    for k, l in enumerate(got):
        if abs(out["distances"][k] - d[l]) > 1e-9 or abs(out["distances_squared"][k] - d[l] ** 2) > 1e-9 or not np.allclose(disp[k], q - pts[l], atol=1e-9):
            msgs.append(f"wrong distance/displacement for point {l}")
        if int(out["indices_original"][k]) != 100 + l or [int(v) for v in np.array(out["factors"]).reshape(-1, 3)[k]] != [10 * l, 10 * l + 1, 10 * l + 2]:
            msgs.append(f"original index / offsets not forwarded for point {l}")
    return msgs, out


def oracle_dt(native_exe, cell, pbc, cut, fpos, K=4):
    C = np.array([[float(v) for v in row] for row in cell], dtype=float)
    pos = np.array(fpos, dtype=float) @ C
    n = len(pos)
    out = native(native_exe, ["dt"] + list(C.ravel()) + [int(b) for b in pbc] + ["inf" if cut == float("inf") else cut, n] + list(pos.ravel()))
    if "exception" in out:
        return [f"get_displacement_tensor raised: {out['exception']}"], out
    D = np.array([fl(v) for v in out["displacements"]]).reshape(n, n, 3)
    d = np.array([fl(v) for v in out["distances"]]).reshape(n, n)
    Fc = np.array([fl(v) for v in out["factors"]]).reshape(n, n, 3)
    rng = [range(-K, K + 1) if pbc[k] else [0] for k in range(3)]
    offs = np.array([[a, b, g] for a in rng[0] for b in rng[1] for g in rng[2]], dtype=float)
    msgs = []
    lens = [np.linalg.norm(C[k]) for k in range(3) if pbc[k]]
    reach = cut if cut != float("inf") else (max(lens) if lens else float("inf"))
    for i in range(n):
        for j in range(n):
            imgs = np.linalg.norm(pos[i] - pos[j] - offs @ C, axis=1)
            tmin = imgs.min()
            if i == j:
                if d[i, i] != 0 or np.abs(D[i, i]).max() != 0:
                    msgs.append(f"non-zero diagonal ({i})")
                continue
            if np.isinf(d[i, j]):
                if cut == float("inf"):
                    msgs.append(f"unbounded cutoff but pair ({i},{j}) is infinite")
                elif tmin <= cut * (1 - 1e-9):
                    msgs.append(f"pair ({i},{j}) with minimum-image distance {tmin:.9g} <= cutoff {cut} reported as infinite")
                continue
            f = Fc[i, j]
            if np.abs(f - np.round(f)).max() > 0 or any(f[k] != 0 and not pbc[k] for k in range(3)):
                msgs.append(f"pair ({i},{j}): factors {f.tolist()} are not integers vanishing on non-periodic axes")
            if not np.allclose(D[i, j], pos[i] - pos[j] - f @ C, atol=1e-9) or abs(d[i, j] - np.linalg.norm(D[i, j])) > 1e-9:
                msgs.append(f"pair ({i},{j}): displacement is not r_i - r_j - factor.cell or distance is not its norm")
            if not np.allclose(D[j, i], -D[i, j], atol=1e-12) or abs(d[j, i] - d[i, j]) > 1e-12 or not np.allclose(Fc[j, i], -Fc[i, j]):
                msgs.append(f"pair ({i},{j}): tables not (anti)symmetric")
            if d[i, j] > tmin * (1 + 1e-9) + 1e-12 and tmin <= reach:
                msgs.append(f"pair ({i},{j}): reported {d[i, j]:.9g}, true minimum image distance {tmin:.9g}")
            if cut != float("inf") and d[i, j] > cut * (1 + 1e-9):
                msgs.append(f"pair ({i},{j}): reported distance {d[i, j]:.9g} beyond the cutoff {cut}")
    return msgs, out
