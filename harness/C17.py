"""C17 — classifier output is consistent with dimensionality and with its own region (Engine A, dispatch under stubs)."""
from fractions import Fraction as F

import numpy as np
import z3

import matid.classification.classifier as CM
import matid.classification.classifications as CC
import matid.geometry.geometry as G
from matid.core.distances import Distances
from lib.common import Report
from lib import cells as CELLS
from symx.engine import explore
from symx.values import SReal, SBool, zbool, const_array
from symx.npproxy import NPProxy, patched
from symx.stubs import StubAtoms, concrete
from harness.sbc_common import sym_dist_matrix

PID = "C17"
NP = NPProxy()
EXPECT = {None: "Unknown", 0: "Class0D", 1: "Class1D", 2: "Class2D", 3: "Class3D"}


class Region:
    def __init__(self, basis, conn, is_2d, tag):
        self._b = set(basis)
        self._c = np.array(conn, dtype=bool)
        self.is_2d = is_2d
        self.cell = ("prototype-cell", tag)

    def get_basis_indices(self):
        return self._b

    def get_connected_directions(self):
        return self._c.copy()


def judge(cls, dim, n, min_cov, input_obj, regions_offered):
    """the statement on a concrete result"""
    msgs = []
    name = type(cls).__name__
    if dim is None:
        ok = name == "Unknown"
    elif dim == 0:
        ok = name == ("Atom" if n == 1 else "Class0D")
    elif dim == 1:
        ok = name == "Class1D"
    elif dim == 3:
        ok = name == "Class3D"
    else:
        ok = name in ("Class2D", "Surface", "Material2D")
    if not ok:
        msgs.append(f"dimensionality {dim} with {n} atom(s) classified as {name}")
    if name in ("Surface", "Material2D"):
        reg = getattr(cls, "region", None)
        if reg is None or cls.prototype_cell is None:
            msgs.append(f"{name} without region / prototype cell")
        else:
            b, o = set(cls.basis_indices), set(cls.outliers)
            if b & o or (b | o) != set(range(n)):
                msgs.append(f"{name}: basis atoms {sorted(b)} and outliers {sorted(o)} do not partition the atoms")
            if len(b) < min_cov * n:
                msgs.append(f"{name}: region covers {len(b)}/{n} atoms, min_coverage = {min_cov}")
            if int(np.sum(reg.get_connected_directions())) != 2:
                msgs.append(f"{name}: region is connected in {int(np.sum(reg.get_connected_directions()))} directions, not 2")
            if cls.prototype_cell is not reg.cell:
                msgs.append(f"{name}: prototype cell is not the region's")
    return msgs


def scripted_classify(d):
    """real Classifier.classify, real numpy/ASE; dimensionality, distances, centre of mass and the region finder scripted"""
    from ase import Atoms
    n = len(d["numbers"])
    at = Atoms(numbers=d["numbers"], positions=np.array(d["positions"], float), cell=np.array(d["cell"], float), pbc=d["pbc"])
    ref = (at.get_positions().copy(), np.array(at.get_cell()).copy(), at.get_pbc().copy())
    Dm, Dr = np.array(d["D_mic"], float), np.array(d["D_radii"], float)
    calls = []

    def fake_dim(system, cluster_threshold=None, dist_matrix_radii_mic_1x=None, return_clusters=False, radii="covalent"):
        calls.append((cluster_threshold, None if dist_matrix_radii_mic_1x is None else np.array(dist_matrix_radii_mic_1x, float), system.get_positions().copy()))
        return d["dim"]
    script = list(d["regions"])

    class Finder:
        def __init__(self, **kw):
            pass

        def get_region(self, system, seed_index, *a, **kw):
            r = script.pop(0) if script else None
            return None if r is None else Region(r["basis"], r["conn"], r["is_2d"], len(script))
    msgs = []
    dist_pos = []

    def fake_dist(s, radii="covalent"):
        dist_pos.append(s.get_positions().copy())
        return Distances(np.zeros((n, n, 3)), np.zeros((n, n, 3)), Dm.copy(), Dr.copy())
    with patched(CM, PeriodicFinder=Finder), patched(CM.matid.geometry, get_dimensionality=fake_dim, get_distances=fake_dist,
                                                     get_center_of_mass=lambda s: np.array(d["cm"], float)):
        try:
            clf = CM.Classifier(min_coverage=d["min_coverage"], cluster_threshold=d["cluster_threshold"])
            c1 = clf.classify(at)
            script[:] = list(d["regions"])
            c2 = clf.classify(at)
        except Exception as ex:
            return [f"classify raised {type(ex).__name__}: {ex}"]
    msgs += judge(c1, d["dim"], n, d["min_coverage"], at, d["regions"])
    if type(c1) is not type(c2):
        msgs.append(f"repeated call gives {type(c2).__name__} after {type(c1).__name__}")
    if not (np.array_equal(ref[0], at.get_positions()) and np.array_equal(ref[1], np.array(at.get_cell())) and np.array_equal(ref[2], at.get_pbc())):
        msgs.append("input structure modified")
    if calls:
        thr, M, pos = calls[0]
        if thr != d["cluster_threshold"]:
            msgs.append(f"dimensionality evaluated with threshold {thr}, cluster_threshold is {d['cluster_threshold']}")
        if M is None or not np.allclose(M, Dr):
            msgs.append("dimensionality evaluated on a matrix that is not the radii-corrected minimum-image matrix of the structure")
        # get_dimensionality's precondition: the matrix handed over is that of the structure handed over (the wrapped copy)
        wrapped = at.copy()
        wrapped.wrap()
        if not dist_pos or not np.allclose(dist_pos[0], pos) or not np.allclose(pos, wrapped.get_positions()):
            msgs.append("the distances were computed on another structure than the wrapped copy whose dimensionality is evaluated")
    return msgs


def h17(n, cellname, pbc):
    def fn(e):
        numbers = [6, 8, 6][:n]
        cell = const_array(CELLS.FAMILY[cellname])
        dim = e.pick([None, 0, 1, 2, 3])
        if dim == 2:
            # the 2D branch sorts atoms by their Euclidean distance to the centre of mass (square roots of quadratic forms):
            # concrete unwrapped positions there, symbolic ones on every other branch
            fr = const_array([[F(5, 4), F(-1, 3), F(1, 7)], [F(2, 5), F(7, 6), F(-3, 8)], [F(-1, 9), F(1, 2), F(13, 10)], [F(3, 4), F(1, 4), F(1, 3)]][:n])
        else:
            fr = e.real_array("f", (n, 3), lo=-1, hi=2)
        pos = np.dot(fr, cell)
        system = StubAtoms(numbers=numbers, positions=pos, cell=cell, pbc=pbc)
        before = (system.positions.copy(), system.cell.copy(), system.pbc.copy())
        Dr = sym_dist_matrix(e, n, "Dr")
        Dm = sym_dist_matrix(e, n, "Dm")
        for i in range(n):
            Dm[i, i] = SReal.const(0)
            for j in range(i + 1, n):
                e.assume(Dm[i, j].rel(lambda a, b: a >= b))
        dist = Distances(const_array(np.zeros((n, n, 3))), const_array(np.zeros((n, n, 3))), Dm, Dr)
        min_cov = e.real("min_coverage", lo=0, hi=1)
        cthr = e.real("cluster_threshold", lo=0, lo_strict=True)
        log = {"dim_calls": [], "regions": [], "dist_calls": 0}

        def fake_dim(system_, cluster_threshold=None, dist_matrix_radii_mic_1x=None, return_clusters=False, radii="covalent"):
            log["dim_calls"].append((system_, cluster_threshold, dist_matrix_radii_mic_1x))
            return dim

        def fake_dist(system_, radii="covalent"):
            log["dist_calls"] += 1
            log["dist_system"] = system_
            return dist

        class Finder:
            def __init__(self, **kw):
                pass

            def get_region(self, system_, seed_index, *a, **kw):
                m = len(system_)
                if sum(r is not None for r in log["regions"]) >= 2 or e.choose(2) == 0:
                    log["regions"].append(None)
                    return None
                # the classifier looks at the region's size, connected directions and is_2d only: one basis subset per
                # size (two for the partial ones), four direction patterns
                subsets = [[], list(range(m))] + [list(range(k)) for k in range(1, m)] + ([list(range(1, m))] if m > 1 else [])
                basis = e.pick(subsets)
                conn = list(e.pick([(True, True, False), (True, True, True), (True, False, False), (False, True, True)]))
                r = {"basis": basis, "conn": conn, "is_2d": bool(e.choose(2))}
                log["regions"].append(r)
                return Region(basis, conn, r["is_2d"], len(log["regions"]))
        cm = [SReal.const(F(1, 3)), SReal.const(F(1, 5)), SReal.const(F(1, 7))]
        exc = None
        with patched(CM, np=NP, PeriodicFinder=Finder), patched(G, np=NP), \
                patched(CM.matid.geometry, get_dimensionality=fake_dim, get_distances=fake_dist, get_center_of_mass=lambda s: np.array(cm, dtype=object)):
            try:
                clf = CM.Classifier(min_coverage=min_cov, cluster_threshold=cthr)
                c1 = clf.classify(system)
                regions1 = list(log["regions"])
            except Exception as ex:     # noqa: BLE001
                exc = ex

        def cex(env):
            fv = lambda x: float(concrete(np.array([x], dtype=object), env)[0])
            d = {"kind": "scripted", "numbers": numbers, "positions": concrete(pos, env), "cell": concrete(cell, env), "pbc": list(pbc), "D_mic": concrete(Dm, env), "D_radii": concrete(Dr, env),
                 "dim": dim, "regions": regions1 if exc is None else [], "min_coverage": fv(min_cov), "cluster_threshold": fv(cthr), "cm": [float(x.cval()) for x in cm]}
            msgs = scripted_classify(d)
            return {"key": f"H17:{cex.label}", "what": f"classify with dimensionality {dim} and region answers {d['regions']}: " + "; ".join(msgs[:3]), "replay": d, "reproduced": bool(msgs)}

        def mk(label):
            def c(env):
                cex.label = label
                return cex(env)
            return c
        if exc is not None:
            e.post("classify returns normally for a full-rank cell", False, mk(f"raises:{type(exc).__name__}"))
            return
        name = type(c1).__name__
        want = {None: ["Unknown"], 0: ["Atom"] if n == 1 else ["Class0D"], 1: ["Class1D"], 2: ["Class2D", "Surface", "Material2D"], 3: ["Class3D"]}[dim]
        e.post("class matches the dimensionality", name in want, mk("class-vs-dimensionality"))
        e.post("input structure untouched", not system.mutations and all(all(x is y or bool(x == y) for x, y in zip(np.ravel(a), np.ravel(b))) for a, b in zip(before, (system.positions, system.cell, system.pbc))), mk("input-mutated"))
        ok_call = len(log["dim_calls"]) == 1
        e.post("dimensionality evaluated once", ok_call, mk("dim-calls"))
        if ok_call:
            s_, thr_, M_ = log["dim_calls"][0]
            e.post("dimensionality evaluated with cluster_threshold", zbool(thr_ == cthr) if isinstance(thr_, SReal) else False, mk("threshold"))
            same = M_ is dist.dist_matrix_radii_mic or (M_ is not None and np.asarray(M_).shape == (n, n) and all(bool(zbool(np.asarray(M_, dtype=object)[i, j] == Dr[i, j]) is not None) and np.asarray(M_, dtype=object)[i, j] is Dr[i, j] for i in range(n) for j in range(n)))
            e.post("dimensionality evaluated on the radii-corrected minimum-image matrix", bool(same), mk("matrix"))
            # ... of the wrapped copy of the input
            fw = s_.get_scaled_positions(wrap=False)
            conds = [s_ is not system, s_ is log.get("dist_system")]
            zc = []
            for i in range(n):
                for c in range(3):
                    d_ = fw[i][c] - fr[i][c]
                    if pbc[c]:
                        zc.append(z3.And(z3.IsInt(d_.z3()) if not d_.is_const() else z3.BoolVal(d_.cval().denominator == 1), zbool(fw[i][c] >= 0), zbool(fw[i][c] < 1)))
                    else:
                        zc.append(d_.eqz())
            e.post("distances and dimensionality refer to the wrapped copy of the input", z3.And(z3.BoolVal(all(conds)), *zc), mk("wrapped-copy"))
        if name in ("Surface", "Material2D"):
            reg = getattr(c1, "region", None)
            e.post("Surface/Material2D carries a region and its prototype cell", reg is not None and c1.prototype_cell is reg.cell, mk("region"))
            if reg is not None:
                b, o = set(c1.basis_indices), set(c1.outliers)
                e.post("basis atoms and outliers partition the atoms", not (b & o) and (b | o) == set(range(n)), mk("partition"))
                e.post("region covers at least min_coverage of the atoms", zbool(min_cov * n <= len(b)), mk("coverage"))
                e.post("region is connected in exactly two directions", int(np.sum(reg.get_connected_directions())) == 2, mk("connected-directions"))
                e.post("Material2D iff the region is two-dimensional", (name == "Material2D") == bool(reg.is_2d), mk("is_2d"))
            e.reach("H17:with-cell")
        e.reach(f"H17:{name}")
        e.sample({"atoms": n, "pbc": list(pbc), "dimensionality": dim, "regions": regions1, "class": name})
    return fn


def main(tier, seed, only=None):
    rep = Report(PID, tier, seed)
    for f in (CM.Classifier.classify, CM.Classifier.cross_validate_region, CC.Class2DWithCell):
        rep.function(f)
    cfg = [(1, "ortho", (True, True, True)), (2, "pyth", (True, True, False)), (2, "ortho", (False, False, False)), (2, "ortho", (True, False, True))]
    if tier == "thorough":
        cfg += [(3, "ortho", (True, True, True)), (3, "pyth", (True, True, False))] + [(2, "pyth", pbc) for pbc in CELLS.PBCS]
    for n, c, pbc in cfg:
        name = f"H17:n{n}:{c}:{''.join('T' if x else 'F' for x in pbc)}"
        if only and not any(name.startswith(o) for o in only):
            continue
        rep.merge_stats(explore(h17(n, c, pbc), name, timeout_ms=20000, budget_s=1200 if tier == "quick" else 4000, chunk_paths=100), "H17")
    if not only:
        rep.require_reached("H17:Unknown", "H17:Atom", "H17:Class0D", "H17:Class1D", "H17:Class2D", "H17:Class3D", "H17:Surface", "H17:Material2D")
    rep.bounds = {"configurations": [str(c) for c in cfg], "positions": "symbolic fractional coordinates in [-1,2] (unwrapped)", "min_coverage": "symbolic in [0,1]",
                  "region answers": "per get_region call None or a region (at most 2 regions per classify) with a basis subset of every size, 4 connected-direction patterns, is_2d either way"}
    rep.stubs = ["get_dimensionality -> arbitrary value in {None,0,1,2,3} (recorded call)", "get_distances -> symbolic matrices", "PeriodicFinder -> FinderStub", "get_center_of_mass -> fixed point", "StubAtoms"]
    rep.assumptions = ["full-rank cell", "get_distances / get_region / get_center_of_mass return normally"]
    rep.outside = ["crash-freedom of get_distances and PeriodicFinder on arbitrary structures", "whether the region found is the physically right one (C18 not applicable)"]
    return rep.finish()


def replay(d):
    msgs = scripted_classify(d)
    return bool(msgs), "; ".join(msgs[:5]) or "ok"
