"""Dispatcher: python -m harness.run <ID> [--tier quick|thorough] [--replay path]"""
import argparse
import importlib
import json
import os
import sys
import traceback


def main():
    ap = argparse.ArgumentParser()
    ap.add_argument("pid")
    ap.add_argument("--tier", default=os.environ.get("VERIF_TIER", "quick"), choices=["quick", "thorough"])
    ap.add_argument("--replay", default=None)
    ap.add_argument("--only", default=None, help="comma separated sub-harness names (debugging)")
    args = ap.parse_args()
    seed = int(os.environ.get("VERIF_SEED", "0") or 0)
    try:
        mod = importlib.import_module("harness." + args.pid)
    except ModuleNotFoundError as e:
        print(f"HARNESS-ERROR: no harness for {args.pid}: {e}")
        return 2
    if args.replay:
        data = json.load(open(args.replay))
        ok, text = mod.replay(data["replay"])
        print(text)
        if ok:
            print(f"VIOLATION property={args.pid} replay={args.replay}")
            return 1
        print("replay: property holds on this input now")
        return 0
    try:
        only = args.only.split(",") if args.only else None
        return mod.main(args.tier, seed, only)
    except Exception:
        traceback.print_exc()
        print(f"HARNESS-ERROR: {args.pid} harness crashed")
        return 2


if __name__ == "__main__":
    sys.exit(main())
