"""C14 — built-in space-group tables vs. the International Tables (Engine T).

Every row of SPACE_GROUP_INFO / WYCKOFF_SETS / CHIRALITY_PRESERVING_EUCLIDEAN_NORMALIZERS
(imported from /repo, i.e. the current tree) becomes SMT obligations over symbolic reals
x, y, z (and a symbolic metric tensor for the normalizers).  Reference: spglib's Hall
symbol database for the standard setting.  Obligation families T1..T6 as in DESIGN.md §4.
"""
import itertools
import os
import sys
import time
from fractions import Fraction as F
from multiprocessing import Pool

import numpy as np
import z3

from lib.common import Report, REPO
from tables.exprparse import parse_linear
from tables import refgroups as RG

PID = "C14"
GENERIC = (F(211, 1000), F(347, 1000), F(463, 1000))
GENERIC2 = (F(137, 1000), F(291, 1000), F(419, 1000))


def _xyz():
    return z3.Reals("x y z")


def rv(fr):
    return z3.RealVal(str(fr))


def lin_to_z3(lf, xyz):
    e = rv(lf[3])
    for c, v in zip(lf[:3], xyz):
        if c != 0:
            e = e + rv(c) * v
    return e


def apply_op(R, t, pt):
    """pt: 3 linear forms (cx,cy,cz,const).  returns R.pt + t as linear forms."""
    out = []
    for r in range(3):
        acc = [F(0)] * 4
        for c in range(3):
            if R[r][c] != 0:
                for k in range(4):
                    acc[k] += R[r][c] * pt[c][k]
        acc[3] += t[r]
        out.append(tuple(acc))
    return tuple(out)


def noncongruent(p, q, xyz):
    """z3 formula: p and q (linear-form points) differ modulo Z^3."""
    ds = []
    for a, b in zip(p, q):
        d = tuple(x - y for x, y in zip(a, b))
        if d[0] == 0 and d[1] == 0 and d[2] == 0:
            if d[3].denominator != 1:
                return z3.BoolVal(True)
            continue
        ds.append(z3.Not(z3.IsInt(lin_to_z3(d, xyz))))
    if not ds:
        return z3.BoolVal(False)
    return z3.Or(*ds)


class Stats:
    def __init__(self):
        self.d = {"paths": 0, "forks": 0, "obligations": 0, "discharged": 0, "validated": 0,
                  "queries": {"unsat": 0, "sat": 0, "unknown": 0}, "solver_s": 0.0, "samples": [],
                  "violations": [], "inconclusive": [], "harness_errors": [], "reach": {}, "fam": {}}

    def fam(self, name, ok):
        f = self.d["fam"].setdefault(name, [0, 0])
        f[0] += 1
        f[1] += 1 if ok else 0
        self.d["obligations"] += 1
        self.d["discharged"] += 1 if ok else 0

    def check(self, solver, *assumptions):
        t0 = time.time()
        r = str(solver.check(*assumptions))
        self.d["solver_s"] += time.time() - t0
        self.d["queries"][r if r in ("sat", "unsat") else "unknown"] += 1
        return r

    def viol(self, key, what, replay):
        self.d["violations"].append({"key": key, "what": what, "replay": replay, "reproduced": True})


def table_points(sg, info, letter):
    """All listed points of a Wyckoff position as linear forms, from the numeric
    matrices/constants (rationalised) plus the centring translations."""
    d = info[letter]
    trans = [(F(0),) * 3] + [tuple(RG.q(v) for v in t) for t in info["translations"]]
    pts = []
    for M, C in zip(d["matrices"], d["constants"]):
        Mq = [[RG.q(v) for v in row] for row in M]
        Cq = [RG.q(v) for v in C]
        if any(v is None for row in Mq for v in row) or any(v is None for v in Cq):
            return None
        for t in trans:
            pts.append(tuple((Mq[0][c], Mq[1][c], Mq[2][c], Cq[c] + t[c]) for c in range(3)))
    return pts


def solver():
    s = z3.Solver()
    s.set("timeout", 20000)
    return s


# ---------------------------------------------------------------------------------- T1
def t1(sg, INFO, st):
    from matid.symmetry.symmetryanalyzer import SymmetryAnalyzer, AttrDict
    an = SymmetryAnalyzer.__new__(SymmetryAnalyzer)
    an._symmetry_dataset = AttrDict(number=sg, pointgroup=RG.ref_pointgroup(sg))
    got = (an.get_crystal_system(), an.get_bravais_lattice(), an.get_point_group(), INFO[sg]["pointgroup"])
    ref = (RG.ref_crystal_system(sg), RG.ref_pearson(sg), RG.ref_pointgroup(sg), RG.ref_pointgroup(sg))
    names = ("crystal_system", "bravais_lattice", "point_group", "table_pointgroup")
    for n, g, r in zip(names, got, ref):
        # the lookup is a finite map; the obligation is decided by z3 on the string equality
        s = solver()
        s.add(z3.StringVal(str(g)) != z3.StringVal(str(r)))
        ok = st.check(s) == "unsat"
        st.fam("T1", ok)
        if not ok:
            st.viol(f"info:{sg}:{n}", f"space group {sg}: {n} reported {g!r}, International Tables {r!r}",
                    {"kind": "info", "sg": sg, "field": n, "expected": r})


# ---------------------------------------------------------------------------------- T2
def t2(sg, info, st):
    xyz = _xyz()
    for letter, d in info.items():
        if letter == "translations":
            continue
        nonzero_vars = set()
        bad_shape = not (len(d["expressions"]) == len(d["matrices"]) == len(d["constants"]))
        st.fam("T2", not bad_shape)
        if bad_shape:
            st.viol(f"wyckoff:{sg}:{letter}:shape", f"SG {sg} {letter}: expressions/matrices/constants lengths differ",
                    {"kind": "shape", "sg": sg, "letter": letter})
            continue
        for k, (exprs, M, C) in enumerate(zip(d["expressions"], d["matrices"], d["constants"])):
            for c in range(3):
                try:
                    lf = parse_linear(exprs[c])
                except ValueError as e:
                    st.fam("T2", False)
                    st.viol(f"wyckoff:{sg}:{letter}:expr[{k}][{c}]:unparsable", str(e), {"kind": "parse", "sg": sg, "letter": letter, "k": k, "c": c})
                    continue
                col = [RG.q(M[i][c]) for i in range(3)] + [RG.q(C[c])]
                if any(v is None for v in col):
                    st.fam("T2", False)
                    st.viol(f"wyckoff:{sg}:{letter}:expr[{k}][{c}]:irrational",
                            f"SG {sg} {letter} expression {k} component {c}: table float is not a small fraction",
                            {"kind": "expr", "sg": sg, "letter": letter, "k": k, "c": c})
                    continue
                for i in range(3):
                    if col[i] != 0:
                        nonzero_vars.add("xyz"[i])
                s = solver()
                s.add(lin_to_z3(lf, xyz) != lin_to_z3(tuple(col), xyz))
                r = st.check(s)
                st.fam("T2", r == "unsat")
                if r == "sat":
                    m = s.model()
                    st.viol(f"wyckoff:{sg}:{letter}:expr[{k}][{c}]",
                            f"SG {sg} {letter}: expression {exprs[c]!r} (#{k}, component {c}) differs from matrices/constants "
                            f"column {[str(v) for v in col]}",
                            {"kind": "expr", "sg": sg, "letter": letter, "k": k, "c": c,
                             "xyz": [str(m.eval(v, model_completion=True)) for v in xyz]})
                elif r != "unsat":
                    st.d["inconclusive"].append(f"T2 {sg} {letter} {k} {c}")
        ok = set(d["variables"]) == nonzero_vars
        st.fam("T2", ok)
        if not ok:
            st.viol(f"wyckoff:{sg}:{letter}:variables", f"SG {sg} {letter}: variables {sorted(d['variables'])} but matrices use {sorted(nonzero_vars)}",
                    {"kind": "variables", "sg": sg, "letter": letter})


# ---------------------------------------------------------------------------------- T3 + T4
def t34(sg, info, st, tier):
    xyz = _xyz()
    ops = RG.group_ops(sg)
    ref_cent = sorted(RG.centring_translations(sg))
    tab_cent = sorted(tuple(RG.q(v) % 1 for v in t) for t in info["translations"])
    ok = ref_cent == tab_cent
    st.fam("T4", ok)
    if not ok:
        st.viol(f"wyckoff:{sg}:translations", f"SG {sg}: centring translations {tab_cent} differ from the Hall database {ref_cent}",
                {"kind": "translations", "sg": sg})
    model_points = {}
    for letter in info:
        if letter == "translations":
            continue
        pts = table_points(sg, info, letter)
        if pts is None:
            st.fam("T3", False)
            st.viol(f"wyckoff:{sg}:{letter}:irrational", f"SG {sg} {letter}: non-rational table entry", {"kind": "irrational", "sg": sg, "letter": letter})
            continue
        probe_pts = [pts[0]]
        if tier == "thorough":
            probe_pts = pts if len(ops) * len(pts) <= 2400 else [pts[0], pts[-1], pts[len(pts) // 2]]
        s = solver()
        stab = 0
        closure_bad = None
        for ip, p in enumerate(probe_pts):
            for io, (R, t) in enumerate(ops):
                img = apply_op(R, t, p)
                s.push()
                for p2 in pts:
                    s.add(noncongruent(img, p2, xyz))
                r = st.check(s)
                st.fam("T3", r == "unsat")
                if r == "sat" and closure_bad is None:
                    m = s.model()
                    closure_bad = (ip, io, [str(m.eval(v, model_completion=True)) for v in xyz])
                elif r not in ("sat", "unsat"):
                    st.d["inconclusive"].append(f"T3 {sg} {letter} op{io}")
                s.pop()
                if ip == 0:
                    s.push()
                    s.add(noncongruent(img, p, xyz))
                    r2 = st.check(s)
                    if r2 == "unsat":
                        stab += 1
                    elif r2 != "sat":
                        st.d["inconclusive"].append(f"T4-stab {sg} {letter} op{io}")
                    s.pop()
        if closure_bad is not None:
            ip, io, mv = closure_bad
            st.viol(f"wyckoff:{sg}:{letter}:closure",
                    f"SG {sg} {letter}: image of listed point under Hall-database operation #{io} is not a listed point (x,y,z={mv})",
                    {"kind": "closure", "sg": sg, "letter": letter, "point": ip, "op": io, "xyz": mv})
        # multiplicity: listed points pairwise incongruent for some x,y,z; #points * |Stab| = |G|
        s = solver()
        s.add(*[v > 0 for v in xyz], *[v < 1 for v in xyz])
        for a, b in itertools.combinations(range(len(pts)), 2):
            s.add(noncongruent(pts[a], pts[b], xyz))
        # first try the fixed generic parameter point (also used by T5), then any point
        r = st.check(s, *[v == rv(g) for v, g in zip(xyz, GENERIC)])
        if r == "sat":
            model_points[letter] = list(GENERIC)
        else:
            r = st.check(s)
        if r == "unknown":
            # fall back to pairwise witnesses (a finite union of proper affine subspaces mod Z^3 cannot cover R^3)
            r = "sat"
            for a, b in itertools.combinations(range(len(pts)), 2):
                s2 = solver()
                s2.add(noncongruent(pts[a], pts[b], xyz))
                if st.check(s2) != "sat":
                    r = "unsat"
                    break
        st.fam("T4", r == "sat")
        if r != "sat":
            st.viol(f"wyckoff:{sg}:{letter}:duplicate-points", f"SG {sg} {letter}: two listed points coincide for all x,y,z",
                    {"kind": "duplicates", "sg": sg, "letter": letter})
        ok = len(pts) * stab == len(ops)
        st.fam("T4", ok)
        if not ok and closure_bad is None:
            st.viol(f"wyckoff:{sg}:{letter}:multiplicity",
                    f"SG {sg} {letter}: {len(pts)} listed points x stabiliser order {stab} != group order {len(ops)}",
                    {"kind": "multiplicity", "sg": sg, "letter": letter})
    return model_points


# ---------------------------------------------------------------------------------- T5
def _frac_of_model(v):
    return F(v.numerator_as_long(), v.denominator_as_long()) if z3.is_rational_value(v) else F(str(v.approx(12)).rstrip("?"))


def t5(sg, info, st, model_points):
    """Concrete oracle: the letter spglib assigns to a generic crystal occupying the row must be a row of the table
    that contains the atom's standardised position with matching orbit size."""
    import spglib
    system = RG.ref_crystal_system(sg)
    lat = RG.generic_lattice(system)
    letters = [l for l in info if l != "translations"]
    general = max(letters)
    gen_pts = table_points(sg, info, general)
    if gen_pts is None:
        return
    gxyz = list(GENERIC2)

    def evalpts(pts, vals):
        return [[float((lf[0] * vals[0] + lf[1] * vals[1] + lf[2] * vals[2] + lf[3]) % 1) for lf in p] for p in pts]

    xyz = _xyz()
    for letter in letters:
        pts = table_points(sg, info, letter)
        if pts is None:
            continue
        vals = list(GENERIC)
        # keep away from accidental coincidences with the general-position probe
        # a second species on a general orbit pins the space group to exactly G
        pos = evalpts(pts, vals) + evalpts(gen_pts, gxyz)
        nums = [1] * len(pts) + [2] * len(gen_pts)
        ds = spglib.get_symmetry_dataset((lat, pos, nums), symprec=1e-5)
        if ds is None or ds.number != sg:
            st.fam("T5", False)
            st.viol(f"wyckoff:{sg}:{letter}:spglib-group",
                    f"SG {sg} {letter}: crystal built from the table rows is reported as space group {None if ds is None else ds.number}",
                    {"kind": "t5", "sg": sg, "letter": letter, "xyz": [str(v) for v in vals]})
            continue
        std_pos, std_types, wy = ds.std_positions, ds.std_types, ds.wyckoffs
        mp = ds.std_mapping_to_primitive
        orb = ds.crystallographic_orbits
        # letters/orbits of the standardised atoms (same route as the analyzer: primitive index -> first original atom)
        _, first = np.unique(ds.mapping_to_primitive, return_index=True)
        std_letters = np.array(wy)[first][mp]
        std_orb = np.array(orb)[first][mp]
        seen = set()
        for i in range(len(std_pos)):
            if std_types[i] != 1 or std_letters[i] in seen:
                continue
            L2 = std_letters[i]
            seen.add(L2)
            ok = L2 in info and L2 != "translations"
            if ok:
                pts2 = table_points(sg, info, L2)
                n_orbit = int(np.sum((std_orb == std_orb[i]) & (std_types == 1)))
                ok = pts2 is not None and len(pts2) == n_orbit
                if ok:
                    # exists parameters placing some listed point of row L2 on the atom (LIRA)
                    target = [F(float(v)).limit_denominator(10**7) for v in std_pos[i]]
                    ok = False
                    es = [z3.Real(f"e{c}") for c in range(3)]
                    ns = [z3.Int(f"n{c}") for c in range(3)]
                    s = solver()
                    s.add(*[z3.And(e > -1e-5, e < 1e-5) for e in es], *[z3.And(n >= -4, n <= 4) for n in ns])
                    for p in pts2:
                        r = st.check(s, *[lin_to_z3(p[c], xyz) - rv(target[c]) + es[c] == z3.ToReal(ns[c]) for c in range(3)])
                        if r == "sat":
                            ok = True
                            break
            st.fam("T5", ok)
            st.d["validated"] += 1
            if not ok:
                st.viol(f"wyckoff:{sg}:{letter}:spglib-letter",
                        f"SG {sg}: spglib labels an atom of the crystal built from row {letter!r} as {L2!r}, but row {L2!r} of the table does not contain it",
                        {"kind": "t5", "sg": sg, "letter": letter, "xyz": [str(v) for v in vals]})


# ---------------------------------------------------------------------------------- T6
def generators(ops):
    """Greedy generating set of the group modulo lattice translations (verified by closure count)."""
    def mul(a, b):
        R = tuple(tuple(sum(a[0][i][k] * b[0][k][j] for k in range(3)) for j in range(3)) for i in range(3))
        t = tuple((sum(a[0][i][k] * b[1][k] for k in range(3)) + a[1][i]) % 1 for i in range(3))
        return (R, t)
    norm = lambda o: (o[0], tuple(x % 1 for x in o[1]))
    allops = {norm(o) for o in ops}
    gens, closure = [], {norm(((1, 0, 0), (0, 1, 0), (0, 0, 1)), ) if False else (((1, 0, 0), (0, 1, 0), (0, 0, 1)), (F(0), F(0), F(0)))}
    for o in ops:
        o = norm(o)
        if o in closure:
            continue
        gens.append(o)
        frontier = True
        while frontier:
            frontier = False
            new = set()
            for a in closure:
                for g in gens:
                    c = mul(a, g)
                    if c not in closure and c not in new:
                        new.add(c)
            if new:
                closure |= new
                frontier = True
        if len(closure) == len(allops):
            break
    assert closure == allops, "Hall database operations do not form a group"
    return gens


def inv3(P):
    """Exact inverse of a 3x3 Fraction matrix."""
    d = RG.det3(P)
    cof = [[(P[(j + 1) % 3][(i + 1) % 3] * P[(j + 2) % 3][(i + 2) % 3] - P[(j + 1) % 3][(i + 2) % 3] * P[(j + 2) % 3][(i + 1) % 3]) / d
            for j in range(3)] for i in range(3)]
    return cof


def t6(sg, info, NORM, st):
    if sg not in NORM:
        return
    ops = RG.group_ops(sg)
    gens = generators(ops)
    letters = sorted(l for l in info if l != "translations")
    cents = [(F(0),) * 3] + [tuple(RG.q(v) for v in t) for t in info["translations"]]
    system = RG.ref_crystal_system(sg)
    sohncke = RG.is_sohncke(sg)
    gs = {k: z3.Real("g" + k) for k in ("11", "22", "33", "12", "13", "23")}
    G = [[gs[f"{min(i, j) + 1}{max(i, j) + 1}"] for j in range(3)] for i in range(3)]
    mc = RG.metric_constraints(system, gs)
    p = z3.Reals("px py pz")
    for ni, nz in enumerate(NORM[sg]):
        T = [[RG.q(v, 48) for v in row] for row in np.asarray(nz["transformation"]).tolist()]
        key = f"normalizer:{sg}:#{ni}"
        rep = {"kind": "normalizer", "sg": sg, "index": ni}
        ok = all(v is not None for row in T for v in row) and len(T) == 4 and T[3] == [0, 0, 0, 1]
        st.fam("T6a", ok)
        if not ok:
            st.viol(key + ":shape", f"SG {sg} normalizer #{ni}: not a rational affine 4x4 matrix with last row (0,0,0,1)", rep)
            continue
        P = [row[:3] for row in T[:3]]
        t = [row[3] for row in T[:3]]
        detP = RG.det3(P)
        ok = detP != 0
        st.fam("T6a", ok)
        if not ok:
            st.viol(key + ":singular", f"SG {sg} normalizer #{ni}: singular linear part", rep)
            continue
        # (f) handedness
        if sohncke:
            s = solver()
            s.add(rv(detP) <= 0)
            r = st.check(s)
            st.fam("T6f", r == "unsat")
            if r != "unsat":
                st.viol(key + ":improper", f"SG {sg} is a Sohncke (chiral) group but tabulated normalizer #{ni} has determinant {detP}", rep)
        # (e) metric of a generic lattice of the system is preserved
        s = solver()
        s.add(*mc)
        PtGP = [[sum(rv(P[k][i]) * G[k][l] * rv(P[l][j]) for k in range(3) for l in range(3)) for j in range(3)] for i in range(3)]
        s.add(z3.Or(*[PtGP[i][j] != G[i][j] for i in range(3) for j in range(3)]))
        r = st.check(s)
        st.fam("T6e", r == "unsat")
        if r != "unsat":
            st.viol(key + ":metric", f"SG {sg} normalizer #{ni} does not preserve the metric of a generic {system} lattice", rep)
        # (d) n g n^-1 in G for a generating set
        Pinv = inv3(P)

        def aff(Rm, tv, v):
            return [sum(rv(Rm[c][i]) * v[i] for i in range(3) if Rm[c][i] != 0) + rv(tv[c]) for c in range(3)]
        good = True
        for (R, tr) in gens:
            v = [sum(rv(Pinv[c][i]) * (p[i] - rv(t[i])) for i in range(3)) for c in range(3)]
            v = aff(R, tr, v)
            v = aff(P, t, v)
            s = solver()
            for R2, tr2 in ops:
                w = aff(R2, tr2, p)
                s.add(z3.Or(*[z3.Not(z3.IsInt(z3.simplify(v[c] - w[c]))) for c in range(3)]))
            r = st.check(s)
            st.fam("T6d", r == "unsat")
            if r != "unsat":
                good = False
        if not good:
            st.viol(key + ":not-normalizing", f"SG {sg} normalizer #{ni}: n g n^-1 is not in the standard-setting group for some generator g", rep)
        # (g) letter permutation
        perm = nz["permutations"]
        ok = sorted(perm.keys()) == letters and sorted(perm.values()) == letters
        st.fam("T6g", ok)
        if not ok:
            st.viol(key + ":perm-not-bijection", f"SG {sg} normalizer #{ni}: permutation is not a bijection on the group's Wyckoff letters", rep)
            continue
        for L in letters:
            L2 = perm[L]
            M = [[RG.q(v) for v in row] for row in info[L]["matrices"][0]]
            C = [RG.q(v) for v in info[L]["constants"][0]]
            if any(v is None for row in M for v in row) or any(v is None for v in C):
                continue
            MP = [[sum(M[i][k] * P[c][k] for k in range(3)) for c in range(3)] for i in range(3)]  # M . P^T
            PC = [sum(P[c][k] * C[k] for k in range(3)) + t[c] for c in range(3)]
            vars1 = [i for i in range(3) if "xyz"[i] in info[L]["variables"]]
            vars2 = [i for i in range(3) if "xyz"[i] in info[L2]["variables"]]
            found = len(vars1) == len(vars2) and len(info[L]["matrices"]) == len(info[L2]["matrices"])
            if found:
                found = False
                s = solver()
                A = [[z3.Real(f"A{i}{j}") if (i in vars1 and j in vars2) else rv(0) for j in range(3)] for i in range(3)]
                b = [z3.Real(f"b{j}") if j in vars2 else rv(0) for j in range(3)]
                n = [z3.Int(f"n{c}") for c in range(3)]
                alts = []
                for Mk, Ck in zip(info[L2]["matrices"], info[L2]["constants"]):
                    Mk = [[RG.q(v) for v in row] for row in Mk]
                    Ck = [RG.q(v) for v in Ck]
                    if any(v is None for row in Mk for v in row) or any(v is None for v in Ck):
                        continue
                    for ct in cents:
                        cs = []
                        for i in vars1:
                            for c in range(3):
                                cs.append(rv(MP[i][c]) == sum(A[i][j] * rv(Mk[j][c]) for j in range(3)))
                        for c in range(3):
                            cs.append(rv(PC[c]) == sum(b[j] * rv(Mk[j][c]) for j in range(3)) + rv(Ck[c] + ct[c]) + z3.ToReal(n[c]))
                        alts.append(z3.And(*cs))
                s.add(z3.Or(*alts))
                found = st.check(s) == "sat"
            st.fam("T6g", found)
            if not found:
                st.viol(key + f":letter:{L}", f"SG {sg} normalizer #{ni} maps Wyckoff position {L} but not onto {L2} as tabulated", dict(rep, letter=L))


# ---------------------------------------------------------------------------------- driver
def run_group(arg):
    sg, tier = arg
    from matid.data.symmetry_data import WYCKOFF_SETS, CHIRALITY_PRESERVING_EUCLIDEAN_NORMALIZERS, SPACE_GROUP_INFO
    st = Stats()
    t0 = time.time()
    try:
        info = WYCKOFF_SETS[sg]
        t1(sg, SPACE_GROUP_INFO, st)
        t2(sg, info, st)
        mp = t34(sg, info, st, tier)
        t5(sg, info, st, mp)
        t6(sg, info, CHIRALITY_PRESERVING_EUCLIDEAN_NORMALIZERS, st)
    except Exception as e:  # harness error, never a verdict
        import traceback
        st.d["harness_errors"].append(f"SG {sg}: {type(e).__name__}: {e} | {traceback.format_exc().splitlines()[-3:]}")
    st.d["wall_s"] = time.time() - t0
    st.d["paths"] = 1
    st.d["forks"] = st.d["obligations"]
    if sg in (62, 178, 227):
        st.d["samples"].append({"space_group": sg, "hall_number": RG.std_hall(sg), "operations": len(RG.group_ops(sg)),
                                "obligations_by_family": st.d["fam"]})
    return sg, st.d


def main(tier, seed, only=None):
    import matid.data.symmetry_data as SD
    from matid.symmetry.symmetryanalyzer import SymmetryAnalyzer
    rep = Report(PID, tier, seed, level="proof")
    rep.source_file(SD.__file__)
    for f in (SymmetryAnalyzer.get_crystal_system, SymmetryAnalyzer.get_bravais_lattice, SymmetryAnalyzer.get_point_group):
        rep.function(f)
    groups = list(range(1, 231))
    if only:
        groups = [int(x) for x in only]
    ok = set(SD.WYCKOFF_SETS) == set(range(1, 231)) and set(SD.SPACE_GROUP_INFO) == set(range(1, 231))
    if not ok:
        rep.violation("tables:keys", "tables do not cover exactly the space groups 1..230", {"kind": "keys"})
    fam = {}
    order = sorted(groups, key=lambda g: -len(RG.group_ops(g)))
    with Pool(min(16, os.cpu_count() or 1)) as pool:
        for sg, d in pool.imap_unordered(run_group, [(g, tier) for g in order], chunksize=1):
            for k, (n, okn) in d.pop("fam").items():
                f = fam.setdefault(k, [0, 0])
                f[0] += n
                f[1] += okn
            rep.merge_stats(d)
    rep.extra["obligations_by_family"] = {k: {"obligations": v[0], "discharged": v[1]} for k, v in sorted(fam.items())}
    rep.extra["exhaustive"] = only is None
    rep.extra["rule"] = ("one obligation per table row and reference operation: T1 labels, T2 expression = W.M+C, T3 orbit closure under "
                         "every Hall-database operation, T4 multiplicity/centring, T5 spglib letter of a generic crystal, T6 normalizers "
                         "(shape, handedness, metric, n g n^-1 in G, letter map)")
    rep.bounds = {"space_groups": len(groups), "wyckoff_positions": sum(len(SD.WYCKOFF_SETS[g]) - 1 for g in groups),
                  "normalizers": sum(len(SD.CHIRALITY_PRESERVING_EUCLIDEAN_NORMALIZERS.get(g, [])) for g in groups),
                  "T3_points": "first listed point x all operations (quick); all listed points when |G|*|points| <= 2400, else first/middle/last (thorough)",
                  "rationalisation": "table floats -> fractions with denominator <= 48 within 5e-9"}
    rep.stubs = ["spglib Hall-symbol database = the International Tables' standard setting (first Hall number of each group)",
                 "T5 uses spglib.get_symmetry_dataset as a concrete oracle on one generic crystal per row"]
    rep.assumptions = ["spglib's Hall database is correct", "generic parameter values (open dense set) for T4/T5", "z3 QF_LIRA decision procedures"]
    rep.outside = ["rows' agreement with the printed International Tables beyond what the Hall database determines",
                   "query_normalizers.py / query_wyckoff_sets.py scrapers (absent from the tree; need network)"]
    return rep.finish()


def replay(data):
    """Concrete re-check of a reported table row against the Hall database."""
    import matid.data.symmetry_data as SD
    st = Stats()
    sg = data["sg"]
    info = SD.WYCKOFF_SETS[sg]
    if data["kind"] == "normalizer":
        t6(sg, info, SD.CHIRALITY_PRESERVING_EUCLIDEAN_NORMALIZERS, st)
        v = [x for x in st.d["violations"] if x["replay"].get("index") == data["index"]]
    elif data["kind"] == "info":
        t1(sg, SD.SPACE_GROUP_INFO, st)
        v = st.d["violations"]
    else:
        t2(sg, info, st)
        mp = t34(sg, info, st, "quick")
        t5(sg, info, st, mp)
        v = [x for x in st.d["violations"] if x["replay"].get("letter") == data.get("letter")]
    return bool(v), "\n".join(x["what"] for x in v) or "no disagreement"
