"""C19 — radii presets and custom radii are honoured uniformly (Engine A; IEEE NaN semantics via z3 Float64)."""
import math

import numpy as np
import z3

import matid.geometry.geometry as G
import matid.clustering.sbc as SBCM
from lib.common import Report
from symx.engine import explore
from symx.values import SReal, SBool, eng, zbool, const_array, sym_array
from symx.npproxy import NPProxy, patched
from symx.stubs import StubAtoms, concrete

PID = "C19"
F64 = z3.Float64()
RNE = z3.RNE()


class SF64:
    """IEEE double with comparisons only (the subject here is `x != nan`)."""
    __slots__ = ("t",)

    def __init__(self, t):
        self.t = t

    @staticmethod
    def lift(o):
        if isinstance(o, SF64):
            return o.t
        if isinstance(o, (float, int, np.floating, np.integer)):
            return z3.FPVal(float(o), F64)
        raise TypeError(type(o))

    def _c(self, o, f):
        try:
            ot = SF64.lift(o)
        except TypeError:
            return NotImplemented
        return SBool(f(self.t, ot))

    def __eq__(self, o):
        return self._c(o, z3.fpEQ)

    def __ne__(self, o):
        return self._c(o, z3.fpNEQ)

    def __lt__(self, o):
        return self._c(o, z3.fpLT)

    def __le__(self, o):
        return self._c(o, z3.fpLEQ)

    def __gt__(self, o):
        return self._c(o, z3.fpGT)

    def __ge__(self, o):
        return self._c(o, z3.fpGEQ)

    __hash__ = None

    def __float__(self):
        raise TypeError("symbolic double realised")

    def __repr__(self):
        return f"SF64({self.t})"


def isnan_hook(a):
    a_ = np.asarray(a, dtype=object)
    out = np.empty(a_.shape, dtype=object)
    for idx in np.ndindex(*a_.shape):
        v = a_[idx]
        out[idx] = SBool(z3.fpIsNaN(v.t)) if isinstance(v, SF64) else (isinstance(v, float) and v != v)
    return out if a_.shape else out[()]


def f64_table(name, n):
    t = np.empty(n, dtype=object)
    for i in range(n):
        t[i] = SF64(z3.FP(f"{name}_{i}", F64))
    return t


class MathProxy:
    def __getattr__(self, k):
        return getattr(math, k)

    def isnan(self, x):
        if isinstance(x, SF64):
            return SBool(z3.fpIsNaN(x.t))
        return math.isnan(x)


# ------------------------------------------------------------------------------- H19a
def h19a(n_table):
    def fn(e):
        cov, vdw = f64_table("cov", n_table), f64_table("vdw", n_table)
        # table contract (ase.data): an entry is either NaN (no radius tabulated) or a finite positive number
        for t in list(cov) + list(vdw):
            e.assume(z3.Or(z3.fpIsNaN(t.t), z3.And(z3.Not(z3.fpIsInf(t.t)), z3.fpGT(t.t, z3.FPVal(0.0, F64)))))
        NPProxy.hooks["isnan"] = isnan_hook
        try:
            with patched(G, np=NPProxy(), covalent_radii=cov, vdw_radii=vdw, math=MathProxy()):
                z = e.choose(n_table)
                nums = np.array([z, (z + 1) % n_table])
                res = {p: G.get_radii(p, nums) for p in ("covalent", "vdw", "vdw_covalent")}
        finally:
            NPProxy.hooks.clear()

        def cex(env):
            # IEEE behaviour is the subject: replay on the real tables with the real numpy
            bad = real_table_violations()
            return {"key": "H19a:vdw_covalent-fallback", "what": "vdw_covalent does not fall back to the covalent radius where the van der Waals radius is NaN"
                    + (f" (real tables: Z={bad[:12]})" if bad else ""),
                    "replay": {"kind": "presets"}, "reproduced": bool(bad)}
        for j, zz in enumerate(nums):
            want = {"covalent": cov[zz].t, "vdw": vdw[zz].t, "vdw_covalent": z3.If(z3.fpIsNaN(vdw[zz].t), cov[zz].t, vdw[zz].t)}
            for p in want:
                r = res[p]
                ok_shape = hasattr(r, "__len__") and len(r) == 2
                e.post(f"{p}: one value per atom", ok_shape, cex)
                if ok_shape:
                    got = r[j]
                    gt = got.t if isinstance(got, SF64) else z3.FPVal(float(got), F64)
                    e.post(f"{p}: documented table value", gt == want[p], cex)
                    if p == "vdw_covalent":
                        fin = lambda t: z3.And(z3.Not(z3.fpIsNaN(t)), z3.Not(z3.fpIsInf(t)), z3.fpGT(t, z3.FPVal(0.0, F64)))
                        e.post("vdw_covalent finite positive whenever either radius is", z3.Implies(z3.Or(fin(cov[zz].t), fin(vdw[zz].t)), fin(gt)), cex)
        e.reach("H19a")
        e.sample({"table_length": n_table, "Z": int(z), "entries": "Float64 symbols: NaN or finite positive"})
    return fn


def real_table_violations():
    from ase.data import covalent_radii
    from ase.data.vdw_alvarez import vdw_radii
    bad = []
    n = min(len(vdw_radii), len(covalent_radii))
    fin = lambda v: v == v and abs(v) != float("inf") and v > 0
    r = G.get_radii("vdw_covalent", np.arange(n))
    rc = G.get_radii("covalent", np.arange(n))
    rv = G.get_radii("vdw", np.arange(n))
    for z in range(1, n):
        want = covalent_radii[z] if vdw_radii[z] != vdw_radii[z] else vdw_radii[z]
        same = lambda a, b: (a == b) or (a != a and b != b)
        if not same(r[z], want) or not same(rc[z], covalent_radii[z]) or not same(rv[z], vdw_radii[z]):
            bad.append(z)
        elif (fin(covalent_radii[z]) or fin(vdw_radii[z])) and not fin(r[z]):
            bad.append(z)
    return bad


# ------------------------------------------------------------------------------- H19b
def h19b(e):
    """real ASE tables, every atomic number: one path per Z"""
    from ase.data import covalent_radii
    from ase.data.vdw_alvarez import vdw_radii
    n = min(len(vdw_radii), len(covalent_radii), 104)
    z = e.choose(n - 1) + 1
    fin = lambda v: v == v and abs(v) != float("inf") and v > 0
    got = {p: float(G.get_radii(p, np.array([z]))[0]) for p in ("covalent", "vdw", "vdw_covalent")}
    want_vc = covalent_radii[z] if vdw_radii[z] != vdw_radii[z] else vdw_radii[z]
    same = lambda a, b: (a == b) or (a != a and b != b)

    def cex(env):
        return {"key": f"H19b:Z={z}", "what": f"vdw_covalent radius of Z={z} is {got['vdw_covalent']} (vdw {vdw_radii[z]}, covalent {covalent_radii[z]})",
                "replay": {"kind": "presets"}, "reproduced": True}
    # decided by z3 over the doubles' bit patterns (structural equality, NaN == NaN)
    e.post("covalent", z3.FPVal(got["covalent"], F64) == z3.FPVal(float(covalent_radii[z]), F64), cex)
    e.post("vdw", z3.FPVal(got["vdw"], F64) == z3.FPVal(float(vdw_radii[z]), F64), cex)
    e.post("vdw_covalent", z3.FPVal(got["vdw_covalent"], F64) == z3.FPVal(float(want_vc), F64), cex)
    e.post("finite positive whenever either radius is", (not (fin(covalent_radii[z]) or fin(vdw_radii[z]))) or fin(got["vdw_covalent"]), cex)
    e.sample({"Z": int(z), "radii": got})


# ------------------------------------------------------------------------------- H19c
def table_sizes():
    from ase.data import covalent_radii
    from ase.data.vdw_alvarez import vdw_radii
    s = {1, 2, 3, 5}
    for n in (len(covalent_radii), len(vdw_radii), 103, 104):
        s |= {n - 1, n, n + 1}
    return sorted(s)


def h19c_identity(e):
    sizes = table_sizes()
    n = sizes[e.choose(len(sizes))]
    arr = sym_array("r", (n,)) if n <= 5 else np.array([SReal.const(i + 1) for i in range(n)], dtype=object)
    nums = np.array([(7 * i) % 50 + 1 for i in range(n)])
    with patched(G, np=NPProxy()):
        out = G.get_radii(arr, nums)

    def cex(env):
        a = np.linspace(0.3, 2.5, n)
        o = G.get_radii(a, nums)
        ok = o is a or (isinstance(o, np.ndarray) and o.shape == a.shape and np.array_equal(o, a))
        return {"key": f"H19c:custom-array:n={n}", "what": f"a custom per-atom radii array of length {n} is not used unchanged",
                "replay": {"kind": "custom", "n": n}, "reproduced": not ok}
    same = out is arr or (isinstance(out, np.ndarray) and out.shape == arr.shape and all(zbool(out[i] == arr[i]) is not None for i in range(n)))
    e.post("custom array returned", bool(isinstance(out, np.ndarray) and out.shape == arr.shape), cex)
    if isinstance(out, np.ndarray) and out.shape == arr.shape:
        e.post("custom array values unchanged", z3.And(*[zbool(out[i] == arr[i]) for i in range(n)]), cex)
    e.sample({"custom_array_length": n})


ELEMENT_SETS = [[8, 1, 8], [55, 17, 55, 17], [84, 12, 84], [6, 6, 6]]   # Po (Z=84) has no tabulated vdW radius


def h19c_consumers(preset, nums):
    def fn(e):
        nat = len(nums)
        pos = e.real_array("p", (nat, 3), lo=0, hi=5)
        cell = const_array([[5, 0, 0], [0, 6, 0], [0, 0, 7]])
        pbc = (True, True, False)
        thr = e.real("thr", lo=0, lo_strict=True, hi=4)
        calls = {}

        def run(radii, tag):
            rec = calls.setdefault(tag, [])

            def fake_tensor(positions, cell=None, pbc=False, cutoff=float("inf"), return_factors=False, return_distances=False):
                rec.append(("tensor", len(positions), cutoff, return_factors, return_distances))
                n = len(positions)
                d = np.empty((n, n), dtype=object)
                for i in range(n):
                    for j in range(n):
                        d[i, j] = SReal.sym(f"d{n}_{min(i, j)}_{max(i, j)}") if i != j else SReal.const(0)
                out = [np.zeros((n, n, 3))]
                if return_factors:
                    out.append(np.zeros((n, n, 3)))
                if return_distances:
                    out.append(d)
                return out[0] if len(out) == 1 else tuple(out)

            def fake_clusters(dist_matrix, threshold, min_samples=1):
                rec.append(("clusters", np.array(dist_matrix, dtype=object), threshold))
                return [list(range(len(dist_matrix)))]
            at = StubAtoms(numbers=nums, positions=pos, cell=cell, pbc=pbc)
            with patched(G, np=NPProxy(), get_displacement_tensor=fake_tensor, get_clusters=fake_clusters):
                dim = G.get_dimensionality(at, thr, radii=radii)
                dist = G.get_distances(at, radii=radii)
            rec.append(("dim", dim))
            rec.append(("distances", np.array(dist.dist_matrix_radii_mic, dtype=object)))
            # SBC: radii resolved once, then handed to get_distances; the region finder is replaced by a stub
            srec = []

            class Finder:
                def __init__(self, **kw):
                    pass

                def get_region(self, system, seed_index=None, **kw):
                    return None, np.ones(len(system), dtype=bool)

            def fake_get_distances(system, radii="covalent"):
                srec.append(np.array(radii, dtype=object) if not isinstance(radii, str) else radii)
                return dist
            with patched(G, np=NPProxy()), patched(SBCM, PeriodicFinder=Finder), patched(SBCM.matid.geometry, get_distances=fake_get_distances):
                SBCM.SBC().get_clusters(at, radii=radii)
                first = list(srec)
                # the same SBC object used before on the same structure with other radii: this call's radii must still be used
                del srec[:]
                sbc = SBCM.SBC()
                sbc.get_clusters(at, radii=np.asarray(G.get_radii("covalent", np.array(nums)), dtype=float) * 0.5)
                del srec[:]
                sbc.get_clusters(at, radii=radii)
                second = list(srec)
            rec.append(("sbc-radii", first[0] if first else None))
            rec.append(("sbc-radii-reused-object", second[0] if second else None))
        table = np.asarray(G.get_radii(preset, np.array(nums)), dtype=float)
        if np.isnan(table).any():
            e.sample({"preset": preset, "numbers": nums, "skipped": "preset has no radius for one of the elements (NaN)"})
            e.reach("H19c:nan-skipped")
            return
        run(preset, "preset")
        run(table.copy(), "custom")

        def same(a, b):
            if isinstance(a, np.ndarray) or isinstance(b, np.ndarray):
                a, b = np.asarray(a, dtype=object), np.asarray(b, dtype=object)
                if a.shape != b.shape:
                    return z3.BoolVal(False)
                return z3.And(*[same(a[idx], b[idx]) for idx in np.ndindex(*a.shape)]) if a.size else z3.BoolVal(True)
            if isinstance(a, tuple) or isinstance(a, list):
                if len(a) != len(b):
                    return z3.BoolVal(False)
                return z3.And(*[same(x, y) for x, y in zip(a, b)])
            if isinstance(a, float) and a != a:
                return z3.BoolVal(isinstance(b, float) and b != b)
            if isinstance(a, SReal) or isinstance(b, SReal):
                nan = lambda v: isinstance(v, float) and v != v
                if nan(a) or nan(b):
                    return z3.BoolVal(False)
                return zbool(a == b)
            return z3.BoolVal(bool(a == b))

        def cex(env):
            p = concrete(pos, env)
            ok, text = conc_consumers(preset, nums, p, float(concrete(np.array([thr], dtype=object), env)[0]))
            return {"key": f"H19c:consumers:{preset}:{nums}", "what": text, "replay": {"kind": "consumers", "preset": preset, "numbers": nums, "positions": p,
                                                                                    "threshold": float(concrete(np.array([thr], dtype=object), env)[0])},
                    "reproduced": not ok}
        a, b = calls["preset"], calls["custom"]
        e.post("same number of recorded calls", len(a) == len(b), cex)
        for x, y in zip(a, b):
            e.post(f"identical {x[0]} call for preset and custom array", same(x, y), cex)
        # and the SBC radii are exactly the per-atom array
        sb = b[-2][1]
        e.post("SBC hands the custom per-atom array on unchanged", same(sb, table) if sb is not None else False, cex)
        sb2 = b[-1][1]
        e.post("an SBC object used before with other radii evaluates the distances with the radii of this call", same(sb2, table) if sb2 is not None else False, cex)
        e.sample({"preset": preset, "numbers": nums})
    return fn


def conc_consumers(preset, nums, pos, thr):
    """public-API replay: dimensionality and distances with the preset vs the same numbers as an array"""
    from ase import Atoms
    at = Atoms(numbers=nums, positions=pos, cell=[5, 6, 7], pbc=(True, True, False))
    table = np.asarray(G.get_radii(preset, np.array(nums)), dtype=float)
    if np.isnan(table).any():
        return True, "NaN radii: extension call skipped"
    d1 = G.get_dimensionality(at, thr, radii=preset, return_clusters=True)
    d2 = G.get_dimensionality(at, thr, radii=table.copy(), return_clusters=True)
    m1 = G.get_distances(at, radii=preset).dist_matrix_radii_mic
    m2 = G.get_distances(at, radii=table.copy()).dist_matrix_radii_mic
    ok = d1[0] == d2[0] and sorted(map(sorted, d1[1])) == sorted(map(sorted, d2[1])) and np.allclose(m1, m2)
    rec = []
    orig = SBCM.matid.geometry.get_distances

    def spy(system, radii="covalent"):
        rec.append(np.array(radii, dtype=float) if not isinstance(radii, str) else np.asarray(G.get_radii(radii, system.get_atomic_numbers()), dtype=float))
        return orig(system, radii)
    SBCM.matid.geometry.get_distances = spy
    try:
        SBCM.SBC().get_clusters(at, radii=table.copy())
        ok2 = bool(rec) and rec[0].shape == table.shape and np.allclose(rec[0], table)
        sbc = SBCM.SBC()
        sbc.get_clusters(at, radii=np.asarray(G.get_radii("covalent", np.array(nums)), dtype=float) * 0.5)
        del rec[:]
        for r_ in (preset, table.copy()):
            sbc.get_clusters(at, radii=r_)
        ok3 = len(rec) == 2 and all(r_.shape == table.shape and np.allclose(r_, table) for r_ in rec)
    finally:
        SBCM.matid.geometry.get_distances = orig
    return ok and ok2 and ok3, ("dimensionality/distances differ between preset and custom array" if not ok else "") + (" SBC does not use the custom per-atom array unchanged" if not ok2 else "") \
        + (" an SBC object used before with other radii does not evaluate the distances with the radii of the call" if not ok3 else "")


# ------------------------------------------------------------------------------- driver
def main(tier, seed, only=None):
    rep = Report(PID, tier, seed)
    for f in (G.get_radii, G.get_dimensionality, G.get_distances, SBCM.SBC.get_clusters):
        rep.function(f)
    jobs = [("H19a", "H19a:table4", h19a(4), "lira")]
    if tier == "thorough":
        jobs.append(("H19a", "H19a:table8", h19a(8), "lira"))     # the fallback loop forks on every entry: 2^n paths
    jobs.append(("H19b", "H19b", h19b, "lira"))
    jobs.append(("H19c", "H19c:identity", h19c_identity, "lira"))
    sets = ELEMENT_SETS[:3] if tier == "quick" else ELEMENT_SETS
    for preset in ("covalent", "vdw", "vdw_covalent"):
        for nums in sets:
            jobs.append(("H19c", f"H19c:consumers:{preset}:{nums}", h19c_consumers(preset, nums), "lira"))
    for fam, name, fn, logic in jobs:
        if only and not any(name.startswith(o) for o in only):
            continue
        rep.merge_stats(explore(fn, name, workers=8, timeout_ms=20000, budget_s=900, logic=logic), fam)
    if not only:
        rep.require_reached("H19a")
    rep.bounds = {"H19a": "tables of length 4 (8 thorough: the comprehension forks on every entry, 2^n paths) whose entries are Float64 symbols (NaN or finite positive), Z by fork",
                  "H19b": "real ASE tables, every Z in 1..103, three presets", "H19c": f"custom arrays of lengths {table_sizes()}; consumers on {sets} with symbolic positions/threshold"}
    rep.stubs = ["covalent_radii / vdw_radii replaced by Float64 symbols in the module namespace (H19a)", "get_displacement_tensor / get_clusters / get_distances recorders, PeriodicFinder stub returning no region (H19c)"]
    rep.assumptions = ["z3 FloatingPoint theory = IEEE 754 binary64 comparisons"]
    rep.outside = ["Classifier (has no radii parameter; uses the covalent default)", "results of the extension itself (C09/C10)"]
    return rep.finish()


def replay(d):
    if d["kind"] == "presets":
        bad = real_table_violations()
        return bool(bad), f"vdw_covalent wrong / not finite positive for Z={bad}" if bad else "ok"
    if d["kind"] == "custom":
        n = d["n"]
        a = np.linspace(0.3, 2.5, n)
        o = G.get_radii(a, np.array([(7 * i) % 50 + 1 for i in range(n)]))
        ok = o is a or (isinstance(o, np.ndarray) and o.shape == a.shape and np.array_equal(o, a))
        return not ok, "custom array changed" if not ok else "ok"
    if d["kind"] == "consumers":
        ok, text = conc_consumers(d["preset"], d["numbers"], np.array(d["positions"], float), d["threshold"])
        return not ok, text or "ok"
    return False, "unknown replay kind"
