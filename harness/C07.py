"""C07 — Wyckoff sets are exactly the symmetry orbits of the conventional cell (Engine A + T, spglib by contract)."""
import numpy as np
import z3

import matid.symmetry.symmetryanalyzer as SA
from lib.common import Report
from symx.engine import explore
from symx.values import SReal, zbool
from harness import sym_common as S
from tables import refgroups as RG

PID = "C07"


def conc_sets(sg, occs_list, vals_list, orders=None, supercell=False):
    """two replay levels: (1) real spglib on the concrete crystals; (2) real analyzer/numpy/ASE with spglib's dataset
    scripted as the contract dataset of the symbolic path (another legitimate origin choice of the same crystal)"""
    msgs = conc_sets_real(sg, occs_list, vals_list, orders, supercell)
    if msgs:
        return msgs
    return ["[spglib dataset scripted] " + m for m in conc_sets_scripted(sg, occs_list, vals_list, orders, supercell)]


def conc_sets_scripted(sg, occs_list, vals_list, orders=None, supercell=False):
    dss = [S.concrete_dataset(sg, occ, vals, order=(orders[k] if orders else None), orig_supercell=supercell) for k, (occ, vals) in enumerate(zip(occs_list, vals_list))]
    ses = S.RealSession(dss)
    msgs = []
    with ses.active():
        for k, ds in enumerate(dss):
            try:
                an = ses.start() if k == 0 else ses.switch(k)
                conv = an.get_conventional_system()
                sets = an.get_wyckoff_sets_conventional(return_parameters=False)
                letters = an.get_wyckoff_letters_conventional()
            except Exception as ex:
                msgs.append(f"system {k}: raised {type(ex).__name__}: {ex}")
                continue
            msgs += check_sets_numeric(sg, k, conv, sets, letters)
    return msgs


def check_sets_numeric(sg, k, conv, sets, letters):
    msgs = []
    n = len(conv)
    cover = sorted(i for s in sets for i in s.indices)
    if cover != list(range(n)):
        msgs.append(f"system {k}: the sets do not partition the atoms")
    sym = conv.get_chemical_symbols()
    f = conv.get_scaled_positions()
    ops = RG.group_ops(sg)
    for s in sets:
        if any(i >= n or sym[i] != s.element or str(letters[i]) != s.wyckoff_letter for i in s.indices):
            msgs.append(f"system {k}: set {s.wyckoff_letter}/{s.element} contains an atom of another element or letter")
            continue
        if s.multiplicity != len(s.indices):
            msgs.append(f"system {k}: multiplicity {s.multiplicity} != size {len(s.indices)}")
        if s.indices:
            p0 = f[s.indices[0]]
            inside = set()
            for R, t in ops:
                q_ = (np.array(R, dtype=float) @ p0 + np.array([float(x) for x in t])) % 1
                d = np.abs((f - q_ + 0.5) % 1 - 0.5).max(axis=1)
                j = int(np.argmin(d))
                if d[j] < 1e-5:
                    inside.add(j)
            if inside != set(s.indices):
                msgs.append(f"system {k}: the orbit of an atom of set {s.wyckoff_letter}/{s.element} under the Hall-database group is not the set")
            if not S.row_contains(sg, s.wyckoff_letter, p0) or len(S.row_points(sg, s.wyckoff_letter)) != len(s.indices):
                msgs.append(f"system {k}: set labelled {s.wyckoff_letter!r} ({s.element}) does not lie on Wyckoff position {s.wyckoff_letter!r} of space group {sg}")
    return msgs


def conc_sets_real(sg, occs_list, vals_list, orders=None, supercell=False):
    """real analyzer (one instance, consecutive set_system calls), real spglib; the statement evaluated numerically with
    spglib.get_symmetry on the returned structure as the independent source of operations"""
    from ase import Atoms
    import spglib
    msgs = []
    an = None
    for k, (occ, vals) in enumerate(zip(occs_list, vals_list)):
        pos, nums = [], []
        for (letter, Z), v in zip(occ, vals):
            for p in S.orbit(sg, letter):
                pos.append([x % 1 for x in p.value(v)])
                nums.append(Z)
        if orders and orders[k]:
            pos = [pos[i] for i in orders[k]]
            nums = [nums[i] for i in orders[k]]
        at = Atoms(numbers=nums, scaled_positions=pos, cell=np.array(S.std_lattice(sg), dtype=float), pbc=True)
        if supercell:
            at = at.repeat((2, 1, 1))
            at = at[S.supercell_perm(len(at) // 2, supercell)]
        try:
            if an is None:
                an = SA.SymmetryAnalyzer(at, symmetry_tol=1e-4)
            else:
                an.set_system(at)
            if an.get_space_group_number() != sg:
                continue
            conv = an.get_conventional_system()
            sets = an.get_wyckoff_sets_conventional(return_parameters=False)
            letters = an.get_wyckoff_letters_conventional()
            equiv = an.get_equivalent_atoms_conventional()
        except Exception as ex:
            msgs.append(f"system {k}: raised {type(ex).__name__}: {ex}")
            continue
        n = len(conv)
        cover = sorted(i for s in sets for i in s.indices)
        if cover != list(range(n)):
            msgs.append(f"system {k}: the sets do not partition the atoms")
        sym = conv.get_chemical_symbols()
        f = conv.get_scaled_positions()
        ops = spglib.get_symmetry((np.array(conv.get_cell()), f, conv.get_atomic_numbers()), symprec=1e-4)
        for s in sets:
            if any(sym[i] != s.element or str(letters[i]) != s.wyckoff_letter for i in s.indices):
                msgs.append(f"system {k}: set {s.wyckoff_letter}/{s.element} contains an atom of another element or letter")
            if s.multiplicity != len(s.indices):
                msgs.append(f"system {k}: multiplicity {s.multiplicity} != size {len(s.indices)}")
            if ops is not None and s.indices:
                p0 = f[s.indices[0]]
                img = (np.einsum("nij,j->ni", ops["rotations"], p0) + ops["translations"]) % 1
                inside = set()
                for q_ in img:
                    d = np.abs((f - q_ + 0.5) % 1 - 0.5).max(axis=1)
                    j = int(np.argmin(d))
                    if d[j] < 1e-4:
                        inside.add(j)
                if inside != set(s.indices):
                    msgs.append(f"system {k}: the orbit of an atom of set {s.wyckoff_letter}/{s.element} is not the set")
        ds2 = spglib.get_symmetry_dataset((np.array(conv.get_cell()), f, conv.get_atomic_numbers()), symprec=1e-4)
        if ds2 is not None and ds2.number == sg and np.allclose(ds2.transformation_matrix, np.eye(3)) and np.allclose(ds2.origin_shift % 1, 0, atol=1e-6):
            if list(ds2.wyckoffs) != [str(x) for x in letters]:
                msgs.append(f"system {k}: letters {''.join(map(str, letters))} differ from the independent assignment {''.join(ds2.wyckoffs)}")
    return msgs


def make_fn(sg, occs, reuse, supercell=False):
    def fn(e):
        occ = e.pick(occs)
        if supercell:
            supercell_ = e.pick([True, "interleaved"])
            return body(e, occ, supercell_)
        return body(e, occ, False)

    def body(e, occ, supercell):
        dss = [S.make_dataset(e, sg, occ, tag="A", orig_supercell=supercell)]
        orders = [None]
        if reuse:
            # one analyzer, a second system: same crystal family, another occupation order and atom order
            occ2 = e.pick(occs)
            n2 = sum(len(S.orbit(sg, l)) for l, _ in occ2)
            order = list(range(n2))[::-1] if n2 > 1 else None
            dss.append(S.make_dataset(e, sg, occ2, tag="B", order=order))
            orders.append(order)
        ses = S.Session(dss)
        res, exc = [], None
        with ses.active():
            try:
                an = ses.start()
                for k in range(len(dss)):
                    if k:
                        an = ses.switch(k)
                    conv = an.get_conventional_system()
                    sets = an.get_wyckoff_sets_conventional(return_parameters=False)
                    res.append((conv, sets, np.array(an.get_wyckoff_letters_conventional()), np.array(an.get_equivalent_atoms_conventional()),
                                S.tkey(np.asarray(an._best_transform["transformation"]))))
            except Exception as ex:     # noqa: BLE001
                exc = ex

        def cex(env):
            occs_l = [d["_occupation"] for d in dss]
            vals_l = [[[float(S.concrete(np.array([x], dtype=object), env)[0]) if isinstance(x, SReal) else float(x) for x in p] for p in d["_params"]] for d in dss]
            msgs = conc_sets(sg, occs_l, vals_l, orders, supercell)
            return {"key": f"H07:sg{sg}:{cex.label}", "what": f"space group {sg}, occupations {occs_l}: " + "; ".join(msgs[:4]),
                    "replay": {"kind": "sets", "sg": sg, "occupations": [[list(o) for o in oc] for oc in occs_l], "params": vals_l, "orders": orders, "supercell": supercell}, "reproduced": bool(msgs)}

        def mk(label):
            def c(env):
                cex.label = label
                return cex(env)
            return c
        if exc is not None:
            e.post("the Wyckoff sets are returned normally", False, mk(f"raises:{type(exc).__name__}"))
            return
        ops = RG.group_ops(sg)
        for k, ((conv, sets, letters, equiv, key), ds) in enumerate(zip(res, dss)):
            tag = f"[system {k}] " if reuse else ""
            n = len(ds.std_types)
            sym = conv.get_chemical_symbols()
            cover = sorted(int(i) for s in sets for i in s.indices)
            e.post(tag + "sets partition the atoms", cover == list(range(n)), mk("partition"))
            e.post(tag + "one element and one letter per set, equal to the members'",
                   all(sym[i] == s.element and str(letters[i]) == s.wyckoff_letter and int(conv.numbers[i]) == s.atomic_number for s in sets for i in s.indices if i < n), mk("element-letter"))
            e.post(tag + "multiplicity = size", all(s.multiplicity == len(s.indices) for s in sets), mk("multiplicity"))
            e.post(tag + "sorted by letter then atomic number", [(s.wyckoff_letter, s.atomic_number) for s in sets] == sorted((s.wyckoff_letter, s.atomic_number) for s in sets), mk("order"))
            e.post(tag + "per-atom letters and equivalence classes have one entry per atom", len(letters) == n and len(equiv) == n, mk("per-atom-arrays"))
            # letters: those of the transformed positions according to the independent oracle
            want = {}
            for (l0, Z) in ds["_occupation"]:
                want.setdefault((S.image_letter(sg, l0, key) if key != S.IDENTITY_KEY else l0, Z), 0)
                want[(S.image_letter(sg, l0, key) if key != S.IDENTITY_KEY else l0, Z)] += len(S.orbit(sg, l0))
            got = {}
            for s in sets:
                got[(s.wyckoff_letter, s.atomic_number)] = got.get((s.wyckoff_letter, s.atomic_number), 0) + len(s.indices)
            e.post(tag + "letters are those an independent assignment gives to the returned positions", got == want, mk("letters"))
            # orbit closure under the Hall-database operations
            f = conv.get_scaled_positions(wrap=False)
            if len(f) == n:
                # the returned atoms are the chosen rigid motion (the one the letters were permuted for) of the standardized atoms
                Pm_ = [list(r[:3]) for r in key[:3]]
                t_ = [r[3] for r in key[:3]]
                pc = []
                for i in range(n):
                    for c in range(3):
                        dd = f[i][c] - (sum(ds.std_positions[i][k2] * Pm_[c][k2] for k2 in range(3)) + t_[c])
                        pc.append(z3.IsInt(dd.z3()) if not dd.is_const() else z3.BoolVal(dd.cval().denominator == 1))
                e.post(tag + "returned positions = the rigid motion the letters were permuted for, applied to the standardized atoms (mod lattice)", z3.And(*pc), mk("positions"))
            conds = []
            closed = True
            for s in sets:
                idx = [int(i) for i in s.indices if i < n]
                if not idx:
                    continue
                p0 = f[idx[0]]
                hit = set()
                keys = {}
                for j in idx:
                    kj = tuple(S.canon_mod1(f[j][c]) for c in range(3))
                    if None not in kj:
                        keys.setdefault(kj, j)
                for R, t in ops:
                    img = [sum(p0[c2] * R[c][c2] for c2 in range(3) if R[c][c2] != 0) + t[c] for c in range(3)]
                    kk = tuple(S.canon_mod1(x) for x in img)
                    j_found = keys.get(kk) if None not in kk else None
                    if j_found is None:
                        closed = False
                        # no syntactic witness: leave the decision to the solver
                        conds.append(z3.Or(*[z3.And(*[(z3.IsInt((img[c] - f[j][c]).z3()) if not (img[c] - f[j][c]).is_const() else z3.BoolVal((img[c] - f[j][c]).cval().denominator == 1)) for c in range(3)]) for j in idx]))
                    else:
                        hit.add(j_found)
                        d = [img[c] - f[j_found][c] for c in range(3)]
                        conds.extend(z3.IsInt(x.z3()) if not x.is_const() else z3.BoolVal(x.cval().denominator == 1) for x in d)
                if closed and hit != set(idx):
                    conds.append(z3.BoolVal(False))
            e.post(tag + "every Hall-database operation maps a set onto itself and the orbit of one atom is the whole set", z3.And(*conds) if conds else True, mk("orbit-closure"))
        if not reuse and not supercell:
            conv0, _, letters0, _, key0 = res[0]
            e.validate_with(lambda env: S.validate_against_real(sg, dss[0], env, key0, conv0.get_scaled_positions(wrap=False), letters0))
        e.reach("H07:reuse" if reuse else ("H07:supercell-input" if supercell else "H07:single"))
        e.sample({"space_group": sg, "occupations": [d["_occupation"] for d in dss], "sets": [[(s.wyckoff_letter, s.element, s.multiplicity) for s in r[1]] for r in res]})
    return fn


def orbit_bound(sg, tier):
    L = len(S.letters_of(sg))
    if tier == "quick":
        return 2 if L <= 14 else 1
    return 3 if L <= 8 else 2


def run_group(arg):
    sg, tier = arg
    occs = S.occupations(sg, orbit_bound(sg, tier), S.ELEMENTS)
    st = explore(make_fn(sg, occs, False), f"H07:sg{sg}", workers=1, timeout_ms=20000, budget_s=3000, validate_every=10)
    # analyzer reuse: pairs of single-orbit occupations (every ordered pair for small groups)
    occ1 = S.occupations(sg, 1, S.ELEMENTS)[: (6 if tier == "quick" else 12)]
    occ1 = occ1 + [[(l, 14)] + o for o in occ1[:2] for l in S.letters_of(sg)[:1] if S.nvars(sg, l) or o[0][0] != l][:2]
    st2 = explore(make_fn(sg, occ1, True), f"H07r:sg{sg}", workers=1, timeout_ms=20000, budget_s=3000)
    # the analysed system given as a 2x1x1 supercell of the standardized cell (per-atom spglib arrays doubled, equivalent_atoms a
    # proper refinement of the crystallographic orbits)
    occ_s = S.occupations(sg, 1, S.ELEMENTS)[: (6 if tier == "quick" else 27)]
    occ_s = occ_s + [o for o in S.occupations(sg, 2, S.ELEMENTS) if len(o) == 2 and o[0][0] != o[1][0]][: (3 if tier == "quick" else 12)]
    st3 = explore(make_fn(sg, occ_s, False, True), f"H07s:sg{sg}", workers=1, timeout_ms=20000, budget_s=3000)
    for k in ("paths", "forks", "obligations", "discharged", "validated", "solver_s", "wall_s"):
        st2[k] += st3[k]
    for k in ("unsat", "sat", "unknown"):
        st2["queries"][k] += st3["queries"][k]
    for l, v in st3["reach"].items():
        st2["reach"][l] = st2["reach"].get(l, 0) + v
    for k in ("inconclusive", "harness_errors", "violations"):
        st2[k].extend(st3[k])
    return sg, st, st2, len(occs)


def main(tier, seed, only=None):
    import multiprocessing as mp
    rep = Report(PID, tier, seed)
    for f in (SA.SymmetryAnalyzer._get_wyckoff_sets, SA.SymmetryAnalyzer.get_wyckoff_sets_conventional, SA.SymmetryAnalyzer._get_spglib_wyckoff_letters_conventional,
              SA.SymmetryAnalyzer._get_spglib_equivalent_atoms_conventional, SA.SymmetryAnalyzer._get_spglib_primitive_to_original_mapping,
              SA.SymmetryAnalyzer._find_wyckoff_ground_state, SA.SymmetryAnalyzer.reset, SA.SymmetryAnalyzer.set_system):
        rep.function(f)
    groups = [int(x) for x in only] if only else list(range(1, 231))
    order = sorted(groups, key=lambda g: -len(S.occupations(g, orbit_bound(g, tier), S.ELEMENTS)) * len(RG.group_ops(g)))
    nocc = 0
    with mp.get_context("fork").Pool(16) as pool:
        for sg, st, st2, n in pool.imap_unordered(run_group, [(g, tier) for g in order], chunksize=1):
            rep.merge_stats(st, "H07")
            rep.merge_stats(st2, "H07-reuse")
            nocc += n
    if not only:
        rep.require_reached("H07:single", "H07:reuse", "H07:supercell-input")
    rep.bounds = {"space_groups": len(groups), "occupations": nocc,
                  "orbits": "quick: <= 2 orbits for groups with <= 14 Wyckoff letters, 1 otherwise; thorough: <= 3 orbits for groups with <= 8 letters, 2 otherwise",
                  "supercell input": "the analysed system as the 2x1x1 supercell of the standardized cell, atoms listed cell by cell or with the two copies of every atom interleaved; 6 single-orbit + 3 two-letter occupations per group (quick), 27 + 12 (thorough); equivalent_atoms = finest admissible partition",
                  "reuse": "one analyzer, two systems (second with reversed atom order): ordered pairs of up to 8 occupations per group (quick), 14 (thorough)"}
    rep.stubs = ["SpglibContract dataset from the Hall-database orbits (letters, crystallographic_orbits, mapping_to_primitive, std_mapping_to_primitive consistent as documented)",
                 "StubAtoms / StubSystem", "letter oracle: row of the table containing the transformed representative (LIRA existential, rows validated by C14)"]
    rep.assumptions = ["spglib's own letter assignment for the standardized cell (contract)", "C14-T3/T4: each table row is the orbit of its representative"]
    rep.outside = ["spglib's letter assignment itself", "inputs given as supercells/other bases (enter only through spglib's mappings; identity mapping pattern plus permuted atom order are covered)"]
    return rep.finish()


def replay(d):
    msgs = conc_sets(d["sg"], [[tuple(o) for o in oc] for oc in d["occupations"]], d["params"], d.get("orders"), d.get("supercell", False))
    return bool(msgs), "; ".join(msgs[:6]) or "ok"
