"""C06 — symmetry results are a normal form (Engine A relational harness + T closure, spglib by contract).

Two descriptions of one crystal differ, after spglib's standardisation, by an element q of the Euclidean normalizer
(another admissible origin / setting choice).  For every group, every occupation and every tabulated normalizer q the
real analyzer is run on the contract dataset of the crystal and on that of its q-image (letters of the image assigned
by the independent oracle, atoms reordered); the reported quantities must coincide.
"""
import itertools

import numpy as np
import z3

import matid.symmetry.symmetryanalyzer as SA
from lib.common import Report
from symx.engine import explore
from symx.values import SReal, zbool
from harness import sym_common as S
from tables import refgroups as RG

PID = "C06"


def summary(an, with_positions):
    sets = an.get_wyckoff_sets_conventional(return_parameters=False)
    out = {"id": an.get_material_id(), "number": an.get_space_group_number(), "hall": an.get_hall_number(), "pointgroup": an.get_point_group(),
           "bravais": an.get_bravais_lattice(), "crystal_system": an.get_crystal_system(), "free": an.get_has_free_wyckoff_parameters(),
           "sets": sorted((s.wyckoff_letter, s.element, s.multiplicity) for s in sets)}
    if with_positions:
        conv = an.get_conventional_system()
        out["conv"] = conv
    return out


def pos_multiset(conv):
    """(Z, position mod 1) multiset as canonical keys (positions are constants when no letter has parameters)"""
    f = conv.get_scaled_positions(wrap=False)
    out = []
    for i in range(len(conv)):
        k = tuple(S.canon_mod1(f[i][c]) if isinstance(f[i][c], SReal) else (tuple(), float(f[i][c]) % 1) for c in range(3))
        out.append((int(conv.get_atomic_numbers()[i]), k))
    return sorted(out, key=repr)


def conc_pair(sg, occ, vals, key):
    """scripted-dataset replay on the real analyzer: the crystal and its image under the normalizer `key`"""
    msgs = []
    res = []
    for tr in (None, key):
        ds = S.concrete_dataset(sg, occ, vals, transform=tr, order=None)
        ses = S.RealSession([ds])
        with ses.active():
            try:
                an = ses.start()
                r = summary(an, True)
                conv = r.pop("conv")
                r["positions"] = sorted((int(z), tuple(np.round(np.array(p) % 1, 6) % 1)) for z, p in zip(conv.get_atomic_numbers(), conv.get_scaled_positions()))
                res.append(r)
            except Exception as ex:
                msgs.append(f"{'image' if tr else 'crystal'}: raised {type(ex).__name__}: {ex}")
    if len(res) == 2:
        for k in ("id", "number", "hall", "pointgroup", "bravais", "crystal_system", "free", "sets"):
            if res[0][k] != res[1][k]:
                msgs.append(f"{k}: {res[0][k]} vs {res[1][k]}")
        if not res[0]["free"] and res[0]["positions"] != res[1]["positions"]:
            msgs.append("no free parameters, yet the conventional cells differ in their atomic positions")
    return msgs


def make_fn(sg, occs):
    cands = [k for k, p in S.candidate_transforms(sg) if k != S.IDENTITY_KEY]

    def fn(e):
        occ = e.pick(occs)
        key = e.pick(cands)
        nofree = all(S.nvars(sg, l) == 0 for l, _ in occ)
        n = sum(len(S.orbit(sg, l)) for l, _ in occ)
        dsA = S.make_dataset(e, sg, occ, tag="")
        # the image: same parameter symbols (same crystal), moved by q, atoms in reversed order
        dsB = S.make_dataset(e, sg, occ, tag="", transform=key, order=list(range(n))[::-1])
        out, exc = [], None
        for ds in (dsA, dsB):
            ses = S.Session([ds])
            with ses.active():
                try:
                    an = ses.start()
                    out.append(summary(an, nofree))
                except Exception as ex:   # noqa: BLE001
                    exc = ex
                    break

        def cex(env):
            vals = [[float(S.concrete(np.array([x], dtype=object), env)[0]) if isinstance(x, SReal) else float(x) for x in p] for p in dsA["_params"]]
            msgs = conc_pair(sg, occ, vals, key)
            return {"key": f"H06:sg{sg}:{cex.label}", "what": f"space group {sg}, occupation {occ}, crystal vs its image under normalizer {[[str(v) for v in r] for r in key[:3]]}: " + "; ".join(msgs[:4]),
                    "replay": {"kind": "pair", "sg": sg, "occupation": [list(o) for o in occ], "params": vals, "normalizer": [[str(v) for v in r] for r in key]}, "reproduced": bool(msgs)}

        def mk(label):
            def c(env):
                cex.label = label
                return cex(env)
            return c
        if exc is not None:
            e.post("analysis returns normally for both descriptions", False, mk(f"raises:{type(exc).__name__}"))
            return
        a, b = out
        for k in ("id", "number", "hall", "pointgroup", "bravais", "crystal_system", "free", "sets"):
            e.post(f"same {k} for both descriptions", a[k] == b[k], mk(k))
        e.post("has-free-parameters flag = some occupied letter has a parameter", a["free"] == (not nofree), mk("free-flag"))
        if nofree:
            e.post("no free parameters: identical conventional atomic positions", pos_multiset(a["conv"]) == pos_multiset(b["conv"]), mk("positions"))
            e.reach("H06:no-free-parameters")
        e.reach("H06:pair")
        e.sample({"space_group": sg, "occupation": occ, "normalizer": [[str(v) for v in r] for r in key[:3]], "sets": a["sets"], "id": a["id"]})
    return fn


def closure_obligations(sg, st):
    """H06b: identity + tabulated (matrix, permutation) pairs are closed under composition modulo the group itself, so
    that agreement for descriptions one normalizer apart extends to any two descriptions"""
    import time
    t0 = time.time()
    cands = S.candidate_transforms(sg)
    letters = S.letters_of(sg)
    perms = []
    for key, perm in cands:
        perms.append({l: (l if perm is None else perm[l]) for l in letters})
    seen = {tuple(sorted(p.items())) for p in perms}
    bad = []
    n_ob = 0
    for p1 in perms:
        for p2 in perms:
            comp = {l: p2[p1[l]] for l in letters}
            n_ob += 1
            # decided by z3 over the finite letter domain: the composed map equals one of the tabulated maps
            s = z3.Solver()
            L = {l: i for i, l in enumerate(letters)}
            f = z3.Function("f", z3.IntSort(), z3.IntSort())
            s.add(*[f(L[l]) == L[comp[l]] for l in letters])
            s.add(z3.And(*[z3.Or(*[f(L[l]) != L[q_[l]] for l in letters]) for q_ in perms]))
            r = str(s.check())
            st["queries"]["unsat" if r == "unsat" else "sat"] += 1
            if r != "unsat":
                bad.append(comp)
    st["obligations"] += n_ob
    st["discharged"] += n_ob - len(bad)
    st["solver_s"] += time.time() - t0
    return bad


def closure_reproduction(sg):
    """statement-level replay of a closure failure: two descriptions of one crystal that are a *product* of two tabulated
    normalizers apart must still give the same results (real analyzer, dataset scripted)"""
    cands = [k for k, p in S.candidate_transforms(sg) if k != S.IDENTITY_KEY]
    occs = S.occupations(sg, 1, S.ELEMENTS) + [o for o in S.occupations(sg, 2, S.ELEMENTS) if len(o) == 2][:60]
    for k1 in cands:
        for k2 in cands:
            M = np.array([[float(v) for v in r] for r in k2]) @ np.array([[float(v) for v in r] for r in k1])
            key = S.tkey(M)
            for occ in occs:
                vals = [[0.137, 0.291, 0.419] if i == 0 else [0.211, 0.347, 0.463] for i in range(len(occ))]
                vals = [[v if "xyz"[j] in S.WYCKOFF_SETS[sg][l]["variables"] else 0.0 for j, v in enumerate(p)] for p, (l, _) in zip(vals, occ)]
                try:
                    msgs = conc_pair(sg, occ, vals, key)
                except Exception:
                    continue
                if msgs:
                    return [f"occupation {occ}, image under the product of two tabulated normalizers: " + m for m in msgs]
    return []


def orbit_bound(sg, tier):
    L = len(S.letters_of(sg))
    n = len(S.candidate_transforms(sg)) - 1
    if tier == "quick":
        return 2 if L * n <= 40 else 1
    return 3 if L <= 8 else 2


def uneven_occupations(sg, limit):
    """one species on three orbits spread unevenly (2 + 1) over two letters that some tabulated normalizer exchanges (both
    with free parameters, so that two orbits on one letter are different orbits), smallest multiplicities first"""
    letters = S.letters_of(sg)
    pairs = set()
    for key, perm in S.candidate_transforms(sg):
        if perm is None:
            continue
        for l in letters:
            if perm[l] != l and S.nvars(sg, l) > 0:
                pairs.add((l, perm[l]))
    pairs = sorted(pairs, key=lambda p: (len(S.orbit(sg, p[0])), p))
    return [[(a, S.ELEMENTS[0]), (a, S.ELEMENTS[0]), (b, S.ELEMENTS[0])] for a, b in pairs[:limit]]


def occupations_for(sg, tier):
    return _occupations_for(sg, tier) + uneven_occupations(sg, 2 if tier == "quick" else 6)


def _occupations_for(sg, tier):
    occs = S.occupations(sg, orbit_bound(sg, tier), S.ELEMENTS)
    if tier == "quick" and orbit_bound(sg, tier) < 2:
        # two-orbit occupations restricted to parameter-free letters (small orbits; the identical-cell clause applies)
        fixed = {l for l in S.letters_of(sg) if S.nvars(sg, l) == 0}
        occs = occs + [o for o in S.occupations(sg, 2, S.ELEMENTS) if len(o) == 2 and all(l in fixed for l, _ in o)]
    return occs


def run_group(arg):
    sg, tier = arg
    from symx.engine import _new_stats
    st_cl = _new_stats()
    bad = closure_obligations(sg, st_cl)
    if bad:
        msgs = closure_reproduction(sg)
        st_cl["violations"].append({"key": f"H06b:sg{sg}:closure", "what": f"space group {sg}: tabulated letter permutations are not closed under composition (e.g. {bad[0]}); "
                                    + ("; ".join(msgs[:2]) if msgs else "no pair of descriptions with different results found"),
                                    "replay": {"kind": "closure", "sg": sg}, "reproduced": bool(msgs)})
    st_cl["paths"] = 1
    if len(S.candidate_transforms(sg)) == 1:
        return sg, None, st_cl, 0
    occs = occupations_for(sg, tier)
    st = explore(make_fn(sg, occs), f"H06:sg{sg}", workers=1, timeout_ms=20000, budget_s=3000)
    return sg, st, st_cl, len(occs) * (len(S.candidate_transforms(sg)) - 1)


def main(tier, seed, only=None):
    import multiprocessing as mp
    rep = Report(PID, tier, seed)
    for f in (SA.SymmetryAnalyzer._find_wyckoff_ground_state, SA.SymmetryAnalyzer.get_material_id, SA.SymmetryAnalyzer._get_wyckoff_sets,
              SA.SymmetryAnalyzer.get_has_free_wyckoff_parameters, SA.SymmetryAnalyzer.get_wyckoff_letters_original, SA.SymmetryAnalyzer.get_bravais_lattice):
        rep.function(f)
    groups = [int(x) for x in only] if only else list(range(1, 231))
    order = sorted(groups, key=lambda g: -len(occupations_for(g, tier)) * len(S.candidate_transforms(g)) * len(RG.group_ops(g)))
    npairs = 0
    with mp.get_context("fork").Pool(16) as pool:
        for sg, st, st_cl, n in pool.imap_unordered(run_group, [(g, tier) for g in order], chunksize=1):
            if st is not None:
                rep.merge_stats(st, "H06a")
            rep.merge_stats(st_cl, "H06b")
            npairs += n
    if not only:
        rep.require_reached("H06:pair", "H06:no-free-parameters")
    rep.bounds = {"space_groups": len(groups), "pairs (occupation x normalizer)": npairs,
                  "orbits": "quick: <= 2 orbits where letters x normalizers <= 40, else 1 orbit plus every 2-orbit occupation of parameter-free letters; thorough: <= 3 orbits for groups with <= 8 letters, 2 otherwise",
                  "uneven occupations": "per group up to 2 (6) occupations with one species on two orbits of a letter and one orbit of the letter a normalizer exchanges it with",
                  "second description": "image under each tabulated normalizer, atoms in reversed order; letters of the image from the independent oracle"}
    rep.stubs = ["SpglibContract datasets for the crystal and for its normalizer image", "StubAtoms / StubSystem", "SHA-512/base64 run for real on the concrete id string"]
    rep.assumptions = ["spglib's standardisation maps any two descriptions of a crystal onto datasets that differ by an element of the Euclidean normalizer (contract)",
                       "the tabulated normalizers together with the group generate the chirality-preserving Euclidean normalizer modulo continuous translations (source: Bilbao server; C14 checks each row, not completeness)"]
    rep.outside = ["invariance of spglib's own output under rotation/supercell/basis change", "SHA-512 collisions", "continuous origin freedom of polar groups (handled by spglib)"]
    return rep.finish()


def replay(d):
    if d["kind"] == "closure":
        from symx.engine import _new_stats
        bad = closure_obligations(d["sg"], _new_stats())
        msgs = closure_reproduction(d["sg"]) if bad else []
        return bool(msgs), ("; ".join(msgs[:3]) if msgs else ("closure fails but no differing pair of descriptions found" if bad else "ok"))
    from fractions import Fraction as F
    key = tuple(tuple(F(v) for v in row) for row in d["normalizer"])
    msgs = conc_pair(d["sg"], [tuple(o) for o in d["occupation"]], d["params"], key)
    return bool(msgs), "; ".join(msgs[:6]) or "ok"
