"""Shared pieces of the symmetry harnesses (C05, C06, C07, C08, C11, C12): the SpglibContract dataset built from the
Hall-symbol database, stubs for ase.Atoms / matid System, and an independent Wyckoff-letter oracle."""
import contextlib
import functools
import itertools
from fractions import Fraction as F

import numpy as np
import z3

import matid.symmetry.symmetryanalyzer as SA
import matid.geometry.geometry as G
from matid.data.symmetry_data import WYCKOFF_SETS, CHIRALITY_PRESERVING_EUCLIDEAN_NORMALIZERS as NORMALIZERS, SPACE_GROUP_INFO
from symx.values import SReal, SBool, zbool, const_array, to_obj, lift, P as Poly, ONE
from symx.npproxy import NPProxy, patched
from symx.stubs import StubAtoms, concrete
from tables import refgroups as RG
from tables.exprparse import parse_linear

NP = NPProxy()
ELEMENTS = [6, 14, 8, 26]       # C, Si, O, Fe


# --------------------------------------------------------------------------------------- linear forms over x,y,z
class LF:
    """point whose coordinates are linear forms a*x + b*y + c*z + d with Fraction coefficients"""
    __slots__ = ("c",)

    def __init__(self, comps):
        self.c = tuple(tuple(F(v) for v in comp) for comp in comps)     # 3 x (cx, cy, cz, const)

    def apply(self, R, t):
        out = []
        for r in range(3):
            acc = [F(0)] * 4
            for k in range(3):
                if R[r][k] != 0:
                    for j in range(4):
                        acc[j] += R[r][k] * self.c[k][j]
            acc[3] += t[r]
            out.append(tuple(acc))
        return LF(out)

    def congruent(self, o):
        """identically equal modulo Z^3 (generic semantics)"""
        for a, b in zip(self.c, o.c):
            if a[:3] != b[:3] or (a[3] - b[3]).denominator != 1:
                return False
        return True

    def wrapped_const(self):
        return LF([comp[:3] + (comp[3] % 1,) for comp in self.c])

    def key(self):
        return tuple(comp[:3] + (comp[3] % 1,) for comp in self.c)

    def sreal(self, xyz):
        """3 SReal values for parameter symbols xyz (SReal)"""
        out = []
        for comp in self.c:
            v = SReal.const(comp[3])
            for k in range(3):
                if comp[k] != 0:
                    v = v + xyz[k] * comp[k]
            out.append(v)
        return out

    def value(self, vals):
        return [float(comp[0] * vals[0] + comp[1] * vals[1] + comp[2] * vals[2] + comp[3]) for comp in self.c]


def q(v):
    r = RG.q(v)
    if r is None:
        raise ValueError(f"table entry {v} is not a small fraction")
    return r


def representative(sg, letter):
    """first expression of the row, parsed from the *string* (C14-T2 ties strings and numbers together)"""
    e = WYCKOFF_SETS[sg][letter]["expressions"][0]
    return LF([parse_linear(s) for s in e])


@functools.lru_cache(None)
def orbit(sg, letter):
    """orbit of the row's representative point under the Hall-database group (not MatID's matrices), deduplicated
    modulo the lattice for generic parameters"""
    rep = representative(sg, letter)
    out, keys = [], set()
    for R, t in RG.group_ops(sg):
        p = rep.apply(R, t)
        k = p.key()
        if k not in keys:
            keys.add(k)
            out.append(p.wrapped_const())
    return out


def letters_of(sg):
    return sorted(l for l in WYCKOFF_SETS[sg] if l != "translations")


def nvars(sg, letter):
    return len(WYCKOFF_SETS[sg][letter]["variables"])


def int_syntactic(x, e=None):
    """x is an integer by its normal form: integer constant plus integer multiples of integer-declared symbols"""
    from symx.values import INT_NAMES
    if not isinstance(x, SReal):
        return float(x) == int(x)
    if x.d is not ONE:
        return False
    for m, c in x.n.t.items():
        if c.denominator != 1:
            return False
        if m == ():
            continue
        if len(m) != 1 or m[0][1] != 1 or m[0][0] not in INT_NAMES:
            return False
    return True


def canon_mod1(x):
    """canonical key of x modulo the integers: monomials over non-integer symbols plus the constant mod 1; integer
    multiples of integer-declared symbols are dropped.  None if the normal form is not of that shape."""
    from symx.values import INT_NAMES
    if not isinstance(x, SReal):
        x = SReal(*lift(x))
    if x.d is not ONE:
        return None
    items = []
    const = F(0)
    for m, c in x.n.t.items():
        if m == ():
            const = c % 1
        elif len(m) == 1 and m[0][1] == 1 and m[0][0] in INT_NAMES:
            if c.denominator != 1:
                return None
        else:
            items.append((m, c))
    return (tuple(sorted(items)), const)


# --------------------------------------------------------------------------------------- independent letter oracle
@functools.lru_cache(None)
def row_points(sg, letter):
    """all listed points of a row (numeric matrices/constants + centring translations) as LF"""
    info = WYCKOFF_SETS[sg]
    d = info[letter]
    trans = [(F(0),) * 3] + [tuple(q(v) for v in t) for t in info["translations"]]
    pts = []
    for M, C in zip(d["matrices"], d["constants"]):
        for t in trans:
            pts.append(LF([(q(M[0][c]), q(M[1][c]), q(M[2][c]), q(C[c]) + t[c]) for c in range(3)]))
    return pts


@functools.lru_cache(None)
def image_letter(sg, letter, Tkey):
    """letter of the Wyckoff position onto which the affine map T (4x4, as nested tuple of Fractions) sends `letter`:
    the unique row with the same number of free parameters and points such that T.rep(x,y,z) is a listed point after an
    affine re-parametrisation (LIRA existential).  None if no row fits."""
    T = [list(r) for r in Tkey]
    Pm = [r[:3] for r in T[:3]]
    t = [r[3] for r in T[:3]]
    img = representative(sg, letter).apply(Pm, t)
    v1 = [i for i in range(3) if any(img.c[c][i] != 0 for c in range(3))]
    cands = []
    for L2 in letters_of(sg):
        if nvars(sg, L2) != nvars(sg, letter) or len(row_points(sg, L2)) != len(row_points(sg, letter)):
            continue
        v2 = [i for i in range(3) if "xyz"[i] in WYCKOFF_SETS[sg][L2]["variables"]]
        s = z3.Solver()
        s.set("timeout", 10000)
        A = [[z3.Real(f"A{i}{j}") if (i in v1 and j in v2) else z3.RealVal(0) for j in range(3)] for i in range(3)]
        b = [z3.Real(f"b{j}") if j in v2 else z3.RealVal(0) for j in range(3)]
        n = [z3.Int(f"n{c}") for c in range(3)]
        alts = []
        for p2 in row_points(sg, L2):
            cs = []
            for c in range(3):
                for i in range(3):
                    cs.append(z3.RealVal(str(img.c[c][i])) == sum(A[i][j] * z3.RealVal(str(p2.c[c][j])) for j in range(3)))
                cs.append(z3.RealVal(str(img.c[c][3])) == sum(b[j] * z3.RealVal(str(p2.c[c][j])) for j in range(3)) + z3.RealVal(str(p2.c[c][3])) + z3.ToReal(n[c]))
            alts.append(z3.And(*cs))
        s.add(z3.Or(*alts))
        if str(s.check()) == "sat":
            cands.append(L2)
    return cands[0] if len(cands) == 1 else (None if not cands else tuple(cands))


def tkey(T):
    return tuple(tuple(q(v) for v in row) for row in np.asarray(T).tolist())


IDENTITY_KEY = tkey(np.eye(4))


def candidate_transforms(sg):
    """identity + tabulated normalizers: (key, permutation-as-tabulated)"""
    out = [(IDENTITY_KEY, None)]
    for nz in NORMALIZERS.get(sg, []):
        out.append((tkey(nz["transformation"]), nz["permutations"]))
    return out


# --------------------------------------------------------------------------------------- dataset
class Dataset(dict):
    def __getattr__(self, k):
        try:
            return self[k]
        except KeyError:
            raise AttributeError(k)


def std_lattice(sg):
    lat = RG.generic_lattice(RG.ref_crystal_system(sg))
    return np.array([[F(float(v)).limit_denominator(10 ** 6) for v in row] for row in lat], dtype=object)


def supercell_perm(n, mode):
    """order of the 2n atoms of the 2x1x1 supercell (i = atom of the first cell, i + n = its translate)"""
    if mode == "interleaved":
        return [i + s * n for i in range(n) for s in (0, 1)]
    return list(range(2 * n))


def make_dataset(e, sg, occupation, tag="", transform=None, order=None, wrap=True, concrete_params=None, orig_order=None, orig_supercell=False):
    """SpglibContract: the dataset spglib documents for a crystal of space group `sg` given in its standard setting with
    the orbits `occupation` = [(letter, Z)] occupied at symbolic generic parameters.  `transform` (4x4 key) moves the
    whole crystal by an affine map first (another origin choice / normalizer image); letters are then those of the image
    positions as determined by the independent oracle.  `order`: permutation of the atoms."""
    pos, nums, letters, orbits_id, prim = [], [], [], [], []
    cents = [(F(0),) * 3] + list(RG.centring_translations(sg))
    params = []
    for oi, (letter, Z) in enumerate(occupation):
        if concrete_params is not None:
            xyz = [SReal.const(v) for v in concrete_params[oi]]
        else:
            xyz = [e.real(f"w{tag}{oi}_{v}", lo=F(1, 50), hi=F(49, 50)) if v in WYCKOFF_SETS[sg][letter]["variables"] else SReal.const(0) for v in "xyz"]
        params.append(xyz)
        pts = orbit(sg, letter)
        L = letter
        if transform is not None and transform != IDENTITY_KEY:
            Pm = [list(r[:3]) for r in transform[:3]]
            t = [r[3] for r in transform[:3]]
            pts = [p.apply(Pm, t) for p in pts]
            L = image_letter(sg, letter, transform)
            if not isinstance(L, str):
                raise ValueError(f"letter oracle: image of {sg}{letter} under transform is {L}")
        first = len(pos)
        # primitive-cell classes: atoms related by a centring translation share a primitive index
        classes = {}
        for p in pts:
            k = None
            for ct in cents:
                kk = tuple(p.c[c][:3] + ((p.c[c][3] - ct[c]) % 1,) for c in range(3))
                if kk in classes:
                    k = classes[kk]
                    break
            if k is None:
                k = classes[p.key()] = len(classes)
            prim.append((oi, k))
            v = p.sreal(xyz)
            pos.append([x % 1 for x in v] if wrap else v)
            nums.append(Z)
            letters.append(L)
            orbits_id.append(first)
    n = len(pos)
    prim_ids = {}
    mapping = []
    for pk in prim:
        mapping.append(prim_ids.setdefault(pk, len(prim_ids)))
    idx = list(range(n)) if order is None else list(order)
    pos = np.array([pos[i] for i in idx], dtype=object).reshape(n, 3)
    nums = np.array([nums[i] for i in idx])
    letters = [letters[i] for i in idx]
    inv = {old: new for new, old in enumerate(idx)}
    orbits_id = np.array([min(inv[j] for j in range(n) if orbits_id[j] == orbits_id[i]) for i in idx])
    mapping = [mapping[i] for i in idx]
    # spglib numbers primitive atoms in order of first appearance
    ren = {}
    mapping = np.array([ren.setdefault(m, len(ren)) for m in mapping])
    t = __import__("spglib").get_spacegroup_type(RG.std_hall(sg))
    ds = Dataset(number=sg, hall_number=RG.std_hall(sg), international=t.international_short, hall=t.hall_symbol, choice=t.choice,
                 pointgroup=t.pointgroup_international, std_lattice=std_lattice(sg), std_positions=pos, std_types=nums,
                 wyckoffs=list(letters), crystallographic_orbits=orbits_id, equivalent_atoms=orbits_id.copy(),
                 mapping_to_primitive=mapping, std_mapping_to_primitive=mapping.copy(),
                 rotations=np.array([R for R, _ in RG.group_ops(sg)]), translations=const_array([[x for x in tt] for _, tt in RG.group_ops(sg)]),
                 transformation_matrix=np.eye(3), origin_shift=np.zeros(3))
    ds["_params"] = params
    ds["_occupation"] = list(occupation)
    # the analysed ("original") system: the standardized cell itself, optionally with its atoms listed in another order
    oo = list(range(n)) if orig_order is None else list(orig_order)
    ds["orig_positions"] = np.array([pos[i] for i in oo], dtype=object).reshape(n, 3)
    ds["orig_types"] = np.array([nums[i] for i in oo])
    if orig_order is not None:
        ds["wyckoffs"] = [letters[i] for i in oo]
        inv_o = {old: new for new, old in enumerate(oo)}
        ds["crystallographic_orbits"] = np.array([min(inv_o[j] for j in range(n) if orbits_id[j] == orbits_id[i]) for i in oo])
        ds["equivalent_atoms"] = ds["crystallographic_orbits"].copy()
        mp_o = [int(mapping[i]) for i in oo]
        ren2 = {}
        ds["mapping_to_primitive"] = np.array([ren2.setdefault(m, len(ren2)) for m in mp_o])
        # std_mapping_to_primitive must use the same primitive numbering
        ds["std_mapping_to_primitive"] = np.array([ren2[int(m)] for m in mapping])
    if orig_supercell:
        # the analysed system is the 2x1x1 supercell of the standardized cell (atoms of the second cell appended): every
        # per-atom array of the original system is doubled, the standardized data stay as they are
        op, ot = ds["orig_positions"], ds["orig_types"]
        half = np.empty((2 * n, 3), dtype=object)
        for i in range(n):
            for s in (0, 1):
                half[i + s * n, 0] = (op[i][0] + s) / 2
                half[i + s * n, 1] = op[i][1]
                half[i + s * n, 2] = op[i][2]
        ds["orig_positions"] = half
        ds["orig_types"] = np.concatenate([ot, ot])
        ds["wyckoffs"] = list(ds["wyckoffs"]) * 2
        co = np.asarray(ds["crystallographic_orbits"])
        ds["crystallographic_orbits"] = np.concatenate([co, co])
        # spglib's `equivalent_atoms` reflects the symmetry of the *input* cell and may split a crystallographic orbit for a
        # supercell of lower lattice symmetry: the contract hands out the finest admissible partition (an atom is equivalent
        # to its own translate in the second cell only), so code that reads it in place of the orbits is visible
        ds["equivalent_atoms"] = np.concatenate([np.arange(n), np.arange(n)])
        mp = np.asarray(ds["mapping_to_primitive"])
        ds["mapping_to_primitive"] = np.concatenate([mp, mp])
        if orig_supercell == "interleaved":
            # the same supercell with the two copies of every atom listed next to each other (0, 0', 1, 1', ...): the first
            # n atoms are then *not* one complete standardized cell
            perm = supercell_perm(n, orig_supercell)
            inv_p = {old: new for new, old in enumerate(perm)}
            ds["orig_positions"] = ds["orig_positions"][perm]
            ds["orig_types"] = ds["orig_types"][perm]
            ds["wyckoffs"] = [ds["wyckoffs"][i] for i in perm]
            for k_ in ("crystallographic_orbits", "equivalent_atoms"):
                arr = ds[k_]
                ds[k_] = np.array([min(inv_p[j] for j in range(2 * n) if arr[j] == arr[i]) for i in perm])
            # primitive atoms numbered in order of first appearance: unchanged by this interleaving
            ds["mapping_to_primitive"] = ds["mapping_to_primitive"][perm]
        lat2 = np.array(ds["std_lattice"], dtype=object).copy()
        lat2[0] = lat2[0] * 2
        ds["orig_lattice"] = lat2
    return ds


@functools.lru_cache(None)
def rational_normalizers():
    """copy of the normalizer table with exact fractions (0.33333333 -> 1/3; every entry must be within 5e-9 of a
    fraction with denominator <= 48, which C14-T6a establishes) so that the code's arithmetic is exact"""
    out = {}
    for sg, lst in NORMALIZERS.items():
        out[sg] = [{"permutations": dict(nz["permutations"]), "transformation": const_array([[q(v) for v in row] for row in np.asarray(nz["transformation"]).tolist()])} for nz in lst]
    return out


@functools.lru_cache(None)
def rational_wyckoff_sets():
    out = {}
    for sg, info in WYCKOFF_SETS.items():
        d = {}
        for k, v in info.items():
            if k == "translations":
                d[k] = const_array([[q(x) for x in row] for row in np.asarray(v).tolist()]) if len(v) else np.zeros((0, 3), dtype=object)
            else:
                d[k] = {"expressions": v["expressions"], "variables": v["variables"],
                        "matrices": const_array([[[q(x) for x in row] for row in M] for M in np.asarray(v["matrices"]).tolist()]),
                        "constants": const_array([[q(x) for x in row] for row in np.asarray(v["constants"]).tolist()])}
        out[sg] = d
    return out


class StubSystem(StubAtoms):
    """matid.core.system.System stand-in"""

    @staticmethod
    def from_atoms(atoms):
        s = StubSystem(numbers=atoms.get_atomic_numbers(), positions=atoms.get_positions(), cell=atoms.get_cell(), pbc=atoms.get_pbc())
        return s

    def set_equivalent_atoms(self, v):
        self.extra["equivalent_atoms"] = v

    def set_wyckoff_letters(self, v):
        self.extra["wyckoff_letters"] = v

    def get_equivalent_atoms(self):
        return self.extra.get("equivalent_atoms")

    def get_wyckoff_letters(self):
        return self.extra.get("wyckoff_letters")


def wrapped_exact(scaled_pos, precision=1e-5):
    """exact-arithmetic contract of matid.geometry.get_wrapped_positions (the 1e-5 snap is a floating-point nicety and is
    checked separately on one symbolic value)"""
    scaled_pos %= 1
    return scaled_pos


class Session:
    """one SymmetryAnalyzer driven through the public API with the spglib contract stub"""

    def __init__(self, datasets, pbc=True, exact_wrap=True, extra_patches=()):
        self.datasets = list(datasets)
        self.systems = []
        for i, ds in enumerate(self.datasets):
            n = len(ds.std_types)
            self.systems.append(StubAtoms(numbers=np.array(ds.get("orig_types", ds.std_types)), scaled_positions=ds.get("orig_positions", ds.std_positions), cell=ds.get("orig_lattice", ds.std_lattice), pbc=pbc))
        self.table = {id(s): d for s, d in zip(self.systems, self.datasets)}
        self.an = None
        self.exact_wrap = exact_wrap
        self.extra = extra_patches

    def _protect(self, fn, description, tol):
        # 2D inputs are analysed through a vacuum-padded copy: look the dataset up by the original system
        return self.table[id(self.an._original_system)]

    @contextlib.contextmanager
    def active(self):
        with contextlib.ExitStack() as st:
            st.enter_context(patched(SA, np=NP, Atoms=StubAtoms, System=StubSystem, segfault_protect=self._protect,
                                     CHIRALITY_PRESERVING_EUCLIDEAN_NORMALIZERS=rational_normalizers(), WYCKOFF_SETS=rational_wyckoff_sets()))
            st.enter_context(patched(G, np=NP, Atoms=StubAtoms))
            if self.exact_wrap:
                st.enter_context(patched(SA.matid.geometry, get_wrapped_positions=wrapped_exact))
            for p in self.extra:
                st.enter_context(p)
            yield self

    def start(self, i=0, **kw):
        self.an = SA.SymmetryAnalyzer.__new__(SA.SymmetryAnalyzer)
        # run the real constructor; `an` must exist for the stub while it runs
        SA.SymmetryAnalyzer.__init__(self.an, self.systems[i], **kw)
        return self.an

    def switch(self, i):
        self.an.set_system(self.systems[i])
        return self.an


def occupations(sg, max_orbits, species):
    """occupation patterns: up to max_orbits orbits over the group's letters (a letter with free parameters may be
    occupied twice), species by rank with symmetry breaking (first orbit gets the first species)."""
    L = letters_of(sg)
    out = []
    for r in range(1, max_orbits + 1):
        for combo in itertools.combinations_with_replacement(L, r):
            if any(combo.count(l) > 1 and nvars(sg, l) == 0 for l in set(combo)):
                continue
            for sp in itertools.product(range(min(r, len(species))), repeat=r):
                # canonical species labelling: first use of rank k before rank k+1
                seen = -1
                ok = True
                for s in sp:
                    if s > seen + 1:
                        ok = False
                        break
                    seen = max(seen, s)
                if ok:
                    out.append([(l, species[s]) for l, s in zip(combo, sp)])
    return out


# --------------------------------------------------------------------------------------- concrete replay helpers
def concrete_dataset(sg, occ, vals, transform=None, order=None, orig_order=None, orig_supercell=False):
    """the SpglibContract dataset for concrete parameter values, as plain float/int arrays"""
    ds = make_dataset(None, sg, occ, transform=transform, order=order, orig_order=orig_order, orig_supercell=orig_supercell, concrete_params=[[F(float(v)).limit_denominator(10 ** 9) for v in p] for p in vals])
    out = Dataset(ds)
    out["std_positions"] = np.array([[float(v.cval()) for v in row] for row in ds.std_positions], dtype=float).reshape(-1, 3)
    out["orig_positions"] = np.array([[float(v.cval()) for v in row] for row in ds["orig_positions"]], dtype=float).reshape(-1, 3)
    out["std_lattice"] = np.array([[float(v) for v in row] for row in ds.std_lattice], dtype=float)
    out["translations"] = np.array([[float(v.cval()) for v in row] for row in ds.translations], dtype=float)
    out["wyckoffs"] = list(ds.wyckoffs)
    if "orig_lattice" in ds:
        out["orig_lattice"] = np.array([[float(v.cval()) if isinstance(v, SReal) else float(v) for v in row] for row in ds["orig_lattice"]], dtype=float)
    return out


class RealSession:
    """real SymmetryAnalyzer, real numpy/ASE; only spglib's answer is scripted (the contract dataset)"""

    def __init__(self, datasets, pbc=True):
        from ase import Atoms
        self.datasets = datasets
        self.systems = [Atoms(numbers=d.get("orig_types", d.std_types), scaled_positions=d.get("orig_positions", d.std_positions), cell=d.get("orig_lattice", d.std_lattice), pbc=pbc) for d in datasets]
        self.table = {id(s): d for s, d in zip(self.systems, datasets)}
        self.an = None

    def _protect(self, fn, description, tol):
        return self.table[id(self.an._original_system)]

    @contextlib.contextmanager
    def active(self):
        with patched(SA, segfault_protect=self._protect):
            yield self

    def start(self, i=0, **kw):
        self.an = SA.SymmetryAnalyzer.__new__(SA.SymmetryAnalyzer)
        SA.SymmetryAnalyzer.__init__(self.an, self.systems[i], **kw)
        return self.an

    def switch(self, i):
        self.an.set_system(self.systems[i])
        return self.an


def row_contains(sg, letter, p, tol=1e-5):
    """numeric: is the fractional position p a point of Wyckoff row `letter` for some parameter values?"""
    info = WYCKOFF_SETS[sg]
    if letter not in info or letter == "translations":
        return False
    trans = [np.zeros(3)] + [np.array(t, dtype=float) for t in info["translations"]]
    p = np.array(p, dtype=float)
    for M, C in zip(info[letter]["matrices"], info[letter]["constants"]):
        M = np.array(M, dtype=float)
        C = np.array(C, dtype=float)
        for t in trans:
            base = p - C - t
            for n in itertools.product((-2, -1, 0, 1, 2), repeat=3):
                rhs = base - np.array(n)
                W, *_ = np.linalg.lstsq(M.T, rhs, rcond=None)
                if np.abs(M.T @ W - rhs).max() < tol:
                    return True
    return False


def params_of(ds, env):
    return [[float(concrete(np.array([x], dtype=object), env)[0]) if isinstance(x, SReal) else float(x) for x in p] for p in ds["_params"]]


def validate_against_real(sg, ds, env, sym_T, sym_conv_f, sym_letters, order=None, orig_order=None, transform=None):
    """witness replay of the stubs (StubAtoms, numpy proxy, rational tables, exact wrap): the real analyzer with real
    numpy/ASE on the concrete dataset of this path must choose the same transformation, letters and positions (mod 1)"""
    vals = params_of(ds, env)
    flat = [v for p in vals for v in p]
    cds = concrete_dataset(sg, ds["_occupation"], vals, transform=transform, order=order, orig_order=orig_order)
    ses = RealSession([cds])
    with ses.active():
        an = ses.start(symmetry_tol=1e-4)
        conv = an.get_conventional_system()
        T = np.asarray(an._best_transform["transformation"], dtype=float)
        letters = [str(x) for x in an.get_wyckoff_letters_conventional()]
    Ts = np.array([[float(v) for v in row] for row in sym_T], dtype=float)
    if not np.allclose(T, Ts, atol=1e-6):
        return f"real run chose transformation {T.tolist()}, symbolic run {Ts.tolist()}"
    if letters != [str(x) for x in sym_letters]:
        return f"real run letters {letters}, symbolic run {list(map(str, sym_letters))}"
    f_real = conv.get_scaled_positions(wrap=False)
    f_sym = concrete(sym_conv_f, env)
    d = f_real - f_sym
    if np.abs(d - np.round(d)).max() > 1e-6:
        # a coordinate within 1e-5 of a cell face is snapped by the real get_wrapped_positions: boundary witness
        if np.abs(f_sym - np.round(f_sym)).min() < 2e-5:
            return None
        return "real conventional positions differ from the symbolic ones"
    return True
