"""C16 — periodic neighbour search and position matching are complete and exact.
Engine C for extend_system / CellList (the real C++ sources); Engine A for get_matches / get_matches_simple and the
Python pass-through wrappers."""
from fractions import Fraction as F

import numpy as np
import z3

import matid.geometry.geometry as G
from matid.core.linkedunits import Substitution
from lib.common import Report
from lib import cells as CELLS
from symx.engine import explore
from symx.values import SReal, SBool, zbool, const_array
from symx.npproxy import NPProxy, patched, solve3
from symx.stubs import StubAtoms, concrete
from harness import cxx_common as X

PID = "C16"
NP = NPProxy()


# --------------------------------------------------------------------------------- H16c: matching logic
class CLResult:
    def __init__(self, idx, dist, fac, disp):
        self.indices_original = idx
        self.distances = dist
        self.factors = fac
        self.displacements = disp
        self.indices = list(range(len(idx)))


class AtomStub:
    def __init__(self, number, position=None):
        self.number, self.position = number, position


class AseProxy:
    class geometry:
        @staticmethod
        def wrap_positions(positions, cell, pbc=True, **kw):
            pb = [pbc] * 3 if isinstance(pbc, (bool, np.bool_)) else list(pbc)
            f = solve3(np.asarray(cell, dtype=object).T, np.asarray(positions, dtype=object).T).T
            for i in range(len(f)):
                for k in range(3):
                    if pb[k]:
                        f[i, k] = f[i, k] % 1
            return np.dot(f, np.asarray(cell, dtype=object))


def conc_matches(numbers, cellq, pbc, pos_sys, queries, qnums, neigh, tol):
    """real get_matches / get_matches_simple with a scripted cell list (real numpy/ASE)"""
    from ase import Atoms
    at = Atoms(numbers=numbers, positions=np.array(pos_sys, float), cell=np.array(cellq, float), pbc=pbc)

    class CL:
        def get_neighbours_for_position(self, x, y, z):
            return CLResult(list(neigh["idx"]), np.array(neigh["dist"], float), [np.array(f, float) for f in neigh["fac"]], [np.array(d, float) for d in neigh["disp"]])
    msgs = []
    try:
        m, s, v, ci = G.get_matches(at, CL(), np.array(queries, float), qnums, tol)
        m2, d2 = G.get_matches_simple(at, CL(), np.array(queries, float), qnums, tol)
    except Exception as ex:
        return [f"raised {type(ex).__name__}: {ex}"]
    k = len(neigh["idx"])
    for qi in range(len(queries)):
        if k and min(neigh["dist"]) <= tol:
            b = int(np.argmin(neigh["dist"]))
            ia = neigh["idx"][b]
            if numbers[ia] == qnums[qi]:
                if m[qi] != ia or s[qi] is not None:
                    msgs.append(f"query {qi}: nearest atom {ia} of the same species within tolerance is not reported as the match")
                if m2[qi] != ia or not np.allclose(d2[qi], neigh["disp"][b]):
                    msgs.append(f"query {qi}: get_matches_simple does not return the nearest match and its displacement")
            else:
                if m[qi] is not None or s[qi] is None or s[qi].index != ia or s[qi].original_element != qnums[qi] or s[qi].substitutional_element != numbers[ia]:
                    msgs.append(f"query {qi}: nearest atom {ia} of another species is not reported as a substitution")
                if m2[qi] is not None:
                    msgs.append(f"query {qi}: get_matches_simple matches an atom of another species")
            if not np.allclose(ci[qi], neigh["fac"][b]):
                msgs.append(f"query {qi}: reported cell offset {ci[qi].tolist()} is not the offset {list(neigh['fac'][b])} of the image that was found")
        else:
            if m[qi] is not None or s[qi] is not None or m2[qi] is not None:
                msgs.append(f"query {qi}: nothing within the tolerance, yet a match/substitution is reported")
            want = np.floor(np.linalg.solve(np.array(cellq, float).T, np.array(queries[qi], float)))
            if not np.allclose(ci[qi], want):
                msgs.append(f"query {qi}: vacancy offset {ci[qi].tolist()} != floor(scaled position) {want.tolist()}")
    nv = sum(1 for qi in range(len(queries)) if not (k and min(neigh["dist"]) <= tol))
    if len(v) != nv:
        msgs.append(f"{len(v)} vacancies reported, expected {nv}")
    return msgs


def h16c(k):
    cellq = CELLS.FAMILY["pyth"]

    def fn(e):
        numbers = [6, 8, 6]
        system = StubAtoms(numbers=numbers, positions=const_array([[0, 0, 0], [1, 1, 1], [2, 0, 1]]), cell=const_array(cellq), pbc=(True, True, False))
        qf = e.real_array("qf", (1, 3), lo=-2, hi=3)
        query = np.dot(qf, const_array(cellq))
        qnum = [e.pick([6, 8])]
        tol = e.real("tol", lo=0, lo_strict=True)
        idx = [e.pick([0, 1, 2]) for _ in range(k)]
        dist = np.array([e.real(f"d{i}", lo=0) for i in range(k)], dtype=object)
        fac = [np.array([i + 1, -i, 0]) for i in range(k)]
        disp = [np.array([SReal.sym(f"dx{i}_{c}") for c in range(3)], dtype=object) for i in range(k)]

        class CL:
            def __init__(self):
                self.calls = []

            def get_neighbours_for_position(self, x, y, z):
                self.calls.append((x, y, z))
                return CLResult(list(idx), dist.copy(), [f.copy() for f in fac], [d.copy() for d in disp])
        cl1, cl2 = CL(), CL()
        exc = None
        with patched(G, np=NP, Atom=AtomStub, ase=AseProxy):
            try:
                m, s, v, ci = G.get_matches(system, cl1, query.copy(), qnum, tol)
                m2, d2 = G.get_matches_simple(system, cl2, query.copy(), qnum, tol)
            except Exception as ex:   # noqa: BLE001
                exc = ex

        def cex(env):
            fv = lambda x: float(concrete(np.array([x], dtype=object), env)[0])
            neigh = {"idx": idx, "dist": [fv(x) for x in dist], "fac": [f.tolist() for f in fac], "disp": [[fv(x) for x in d] for d in disp]}
            args = dict(numbers=numbers, cellq=[[float(v) for v in r] for r in cellq], pbc=[True, True, False], pos_sys=[[0, 0, 0], [1, 1, 1], [2, 0, 1]],
                        queries=concrete(query, env), qnums=qnum, neigh=neigh, tol=fv(tol))
            msgs = conc_matches(**args)
            return {"key": f"H16c:{cex.label}", "what": "get_matches / get_matches_simple: " + "; ".join(msgs[:3]), "replay": dict(kind="matches", **args), "reproduced": bool(msgs)}

        def mk(label):
            def c(env):
                cex.label = label
                return cex(env)
            return c
        if exc is not None:
            e.post("matching returns normally", False, mk(f"raises:{type(exc).__name__}"))
            return
        e.post("the cell list is queried at the searched position", len(cl1.calls) == 1 and all(bool(zbool(a == b)) for a, b in zip(cl1.calls[0], query[0])), mk("query-position"))
        wrapped = [cl2.calls[0][c] if cl2.calls else None for c in range(3)]
        if cl2.calls:
            fw = solve3(const_array(cellq).T, np.array(wrapped, dtype=object)[:, None])[:, 0]
            conds = []
            for c in range(3):
                d_ = fw[c] - qf[0, c]
                conds.append(z3.And(z3.IsInt(d_.z3()) if not d_.is_const() else z3.BoolVal(True), zbool(fw[c] >= 0), zbool(fw[c] < 1)) if c < 2 else d_.eqz())
            e.post("get_matches_simple queries the position wrapped along the periodic axes", z3.And(*conds), mk("wrapped-query"))
        # oracle on this path
        within = [zbool(dist[i] <= tol) for i in range(k)]
        nearest = None
        if k:
            nearest = 0
            for i in range(1, k):
                if bool(dist[i] < dist[nearest]):
                    nearest = i
        hit = k > 0 and bool(dist[nearest] <= tol)
        if hit:
            ia = idx[nearest]
            same = numbers[ia] == qnum[0]
            if same:
                e.post("nearest image within tolerance of the same species is the match", m[0] == ia and s[0] is None and len(v) == 0, mk("match"))
                e.post("get_matches_simple returns the same match and its displacement", m2[0] == ia and d2[0] is not None and all(bool(zbool(a == b)) for a, b in zip(d2[0], disp[nearest])), mk("simple-match"))
            else:
                ok = m[0] is None and isinstance(s[0], Substitution) and s[0].index == ia and s[0].original_element == qnum[0] and s[0].substitutional_element == numbers[ia] and len(v) == 0
                e.post("nearest image within tolerance of another species is a substitution", ok, mk("substitution"))
                e.post("get_matches_simple does not match another species", m2[0] is None, mk("simple-substitution"))
            e.post("the reported cell offset is that of the image found", all(bool(zbool(SReal.const(int(fac[nearest][c])) == ci[0][c])) if isinstance(ci[0][c], SReal) else float(ci[0][c]) == float(fac[nearest][c]) for c in range(3)), mk("offset"))
            e.reach("H16c:match" if same else "H16c:substitution")
        else:
            ok = m[0] is None and s[0] is None and len(v) == 1 and v[0].number == qnum[0] and m2[0] is None and d2[0] is None
            e.post("nothing within the tolerance: a vacancy", ok, mk("vacancy"))
            fl = [qf[0, c].floor() for c in range(3)]
            e.post("vacancy offset = floor(scaled position)", z3.And(*[zbool(ci[0][c] == fl[c]) for c in range(3)]), mk("vacancy-offset"))
            e.reach("H16c:vacancy")
        e.sample({"neighbours": k, "indices": idx, "query_species": qnum[0]})
    return fn


def h16d(e):
    """pass-through wrappers: get_cell_list / get_extended_system hand their arguments to the extension unchanged"""
    ext_ = e.real("extension", lo=0)
    cut = e.real("cutoff", lo=0, lo_strict=True)
    calls = []

    class Ext:
        def get_cell_list(self, positions, cell, pbc, extension, cutoff):
            calls.append(("cl", positions, cell, pbc, extension, cutoff))
            return "CL"

        def extend_system(self, positions, numbers, cell, pbc, cutoff):
            calls.append(("ext", positions, numbers, cell, pbc, cutoff))
            return "EXT"
    pos, cell, pbc = np.array([[0.0, 0, 0]]), np.eye(3) * 4, np.array([True, False, True])
    at = StubAtoms(numbers=[6], positions=const_array(pos), cell=const_array(cell), pbc=pbc)
    with patched(G, np=NP), patched(G.matid, ext=Ext()):
        r1 = G.get_cell_list(pos, cell, pbc, ext_, cut)
        r2 = G.get_extended_system(at, cut)

    def cex(env):
        fv = lambda x: float(concrete(np.array([x], dtype=object), env)[0])
        msgs = conc_cell_list(fv(ext_), fv(cut))
        if not msgs:
            for ex_, cu_ in ((3.0, 1.0), (1.0, 3.0), (2.2, 1.05), (0.7, 2.4)):
                msgs = conc_cell_list(ex_, cu_)
                if msgs:
                    return {"key": "H16d:get_cell_list", "what": f"get_cell_list(extension={ex_}, cutoff={cu_}): " + "; ".join(msgs[:2]), "replay": {"kind": "wrapper", "extension": ex_, "cutoff": cu_}, "reproduced": True}
        return {"key": "H16d:get_cell_list", "what": f"get_cell_list(extension={fv(ext_)}, cutoff={fv(cut)}): " + "; ".join(msgs[:2]),
                "replay": {"kind": "wrapper", "extension": fv(ext_), "cutoff": fv(cut)}, "reproduced": bool(msgs)}
    ok = len(calls) == 2 and calls[0][0] == "cl" and calls[1][0] == "ext" and r1 == "CL" and r2 == "EXT"
    e.post("wrappers call the extension once each and return its result", ok, cex)
    if ok:
        e.post("get_cell_list forwards extension and cutoff unchanged", z3.And(zbool(calls[0][4] == ext_) if isinstance(calls[0][4], SReal) else z3.BoolVal(False), zbool(calls[0][5] == cut) if isinstance(calls[0][5], SReal) else z3.BoolVal(False)), cex)
        e.post("get_extended_system forwards the cutoff unchanged", zbool(calls[1][5] == cut) if isinstance(calls[1][5], SReal) else False, cex)
    e.reach("H16d")
    e.sample({"extension": "symbolic", "cutoff": "symbolic (both orders)"})


HIST = [(1.0, 0.5), (1.0, 1.5), (2.5, 1.5), (2.5, 0.5)]


def h16e(e):
    """call histories of get_cell_list on one structure: every call must reach the extension with its own extension and cutoff
    (a result computed for other arguments must not be handed out)"""
    first, second = e.pick(HIST), e.pick(HIST)
    calls = []

    class Ext:
        def get_cell_list(self, positions, cell, pbc, extension, cutoff):
            calls.append((float(extension), float(cutoff)))
            return ("CL", float(extension), float(cutoff))
    pos, cell, pbc = np.array([[0.0, 0, 0]]), np.eye(3) * 4, np.array([True, False, True])
    with patched(G, np=NP), patched(G.matid, ext=Ext()):
        r1 = G.get_cell_list(pos.copy(), cell.copy(), pbc.copy(), first[0], first[1])
        r2 = G.get_cell_list(pos.copy(), cell.copy(), pbc.copy(), second[0], second[1])

    def cex(env):
        msgs = conc_cell_list(second[0], second[1], prior=first)
        return {"key": "H16e:history", "what": f"get_cell_list(extension={second[0]}, cutoff={second[1]}) after get_cell_list(extension={first[0]}, cutoff={first[1]}) on the same structure: " + "; ".join(msgs[:2]),
                "replay": {"kind": "wrapper", "extension": second[0], "cutoff": second[1], "prior": list(first)}, "reproduced": bool(msgs)}
    e.post("each call returns a cell list built for its own extension and cutoff", r1 == ("CL",) + first and r2 == ("CL",) + second, cex)
    e.reach("H16e")
    e.sample({"first": first, "second": second})


def conc_cell_list(extension, cutoff, prior=None):
    """statement-level replay with the shipped extension: a cell list built through the Python wrapper must return, for query
    points in the cell, exactly the periodic images within the cutoff among those within the extension distance of the cell"""
    import itertools
    cell = np.array([[3.0, 0, 0], [1.0, 4.0, 0], [0, 0, 5.0]])
    pos = np.array([[0.3, 0.4, 0.5], [2.1, 2.9, 4.2]])
    pbc = np.array([True, True, False])
    msgs = []
    try:
        if prior is not None:
            G.get_cell_list(pos.copy(), cell.copy(), pbc.copy(), prior[0], prior[1])
        cl = G.get_cell_list(pos, cell, pbc, extension, cutoff)
    except Exception as ex:
        return [f"get_cell_list raised {type(ex).__name__}: {ex}"]
    K = int(np.ceil(max(extension, cutoff) / 2.5)) + 2
    images = [(i, (a, b, 0), pos[i] + a * cell[0] + b * cell[1]) for i in range(2) for a in range(-K, K + 1) for b in range(-K, K + 1)]
    for q in (np.array([0.1, 0.1, 0.1]), np.array([1.9, 2.0, 2.5]), np.array([3.7, 3.9, 4.9])):
        r = cl.get_neighbours_for_position(q[0], q[1], q[2])
        got = sorted((int(i), tuple(int(round(v)) for v in f)) for i, f in zip(r.indices_original, r.factors))
        for (i, f), d in zip(zip(r.indices_original, r.factors), r.distances):
            if d > cutoff * (1 + 1e-9):
                msgs.append(f"query {q.tolist()}: image of atom {int(i)} at distance {d:.6g} beyond the cutoff {cutoff} returned")
        for i, f, p in images:
            d = np.linalg.norm(q - p)
            if d <= cutoff * (1 - 1e-9) and d <= extension * (1 - 1e-9) and (i, f) not in got:
                msgs.append(f"query {q.tolist()}: image {f} of atom {i} at distance {d:.6g} (within cutoff {cutoff} and extension {extension}) not returned")
        if len(got) != len(set(got)):
            msgs.append("an image is returned twice")
    return msgs


def configs_a(tier):
    cfg = []
    if tier == "quick":
        for cell, cutmax in (("ortho", 4), ("tricl", 4), ("plate", 2), ("pyth", 6)):
            for pbc in ("TTT", "TTF", "TFF", "FFF", "FTF"):
                cfg.append([cell, pbc, 1, cutmax, 1, 900])
        cfg += [["zero_c", p, 1, 4, 1, 300] for p in ("TTF", "TFF", "FFF")] + [["zero_ab", p, 1, 6, 1, 300] for p in ("FFT", "FFF")] + [["zero_abc", "FFF", 1, 4, 1, 300]]
        cfg += [["ortho", "TTT", 2, 4, 1, 900], ["tricl", "TTF", 2, 4, 1, 900]]
    else:
        pbcs = ["TTT", "TTF", "TFT", "FTT", "TFF", "FTF", "FFT", "FFF"]
        for cell, cutmax in (("ortho", 6), ("tricl", 6), ("plate", 3), ("pyth", 8), ("rot", 6), ("shear", 3), ("needle", 4)):
            for pbc in pbcs:
                cfg.append([cell, pbc, 1, cutmax, 1, 3000])
        cfg += [["zero_c", p, 1, 6, 1, 600] for p in pbcs if p[2] == "F"] + [["zero_ab", p, 1, 8, 1, 600] for p in ("FFT", "FFF")] + [["zero_abc", "FFF", 1, 4, 1, 300]]
        cfg += [[c, p, 2, 4, 1, 3000] for c in ("ortho", "tricl", "pyth") for p in ("TTT", "TTF", "TFF")]
    return cfg


def configs_b(tier):
    cfg = []
    for ax in (0, 1, 2):
        for g in (0, 1, 2):
            cfg.append([1, ax, g, 600, 8])
            cfg.append([2, ax, g, 2000 if tier == "thorough" else 900, 4 if tier == "quick" else 6])
    # three points: 10 412 paths per axis, but one branch condition ((q-p2)^2 <= cut^2 - 53/8 under a long path condition) is
    # answered `unknown` by both the default solver and nlsat - outside the claim rather than inconclusive forever
    return cfg


def main(tier, seed, only=None):
    rep = Report(PID, tier, seed)
    for f in ("geometry.cpp", "celllist.cpp", "geometry.h", "celllist.h"):
        rep.source_file(X.EXT + "/" + f)
    for f in (G.get_matches, G.get_matches_simple, G.get_cell_list, G.get_extended_system, G.to_scaled):
        rep.function(f)
    rep.source_file(X.CXX + "/symd.hpp")
    built = X.compile_all(("h16a", "h16b", "replay_native"))
    for name, (exe, log) in built.items():
        if exe is None:
            rep.harness_errors.append(f"compilation of {name} against the current sources failed: {log[-600:]}")
    nat = built["replay_native"][0]
    if built["h16a"][0] and (not only or "H16a" in only):
        todo = X.merge_into(rep, X.run_configs(built["h16a"][0], configs_a(tier)), "H16a")
        seen = set()
        for r, c in todo:
            inp = c["inputs"]
            key = "H16a:" + c["label"].split(" (offset")[0]
            if key in seen:
                continue
            cut = float(X.frac(inp["cut"]))
            fpos = [[float(X.frac(v)) for v in row] for row in inp["f"]]
            pbc = [ch == "T" for ch in inp["pbc"]]
            msgs, _ = X.oracle_ext(nat, X.CELLS[inp["cell"]], pbc, cut, fpos) if nat else (["native replay driver did not compile"], None)
            if msgs:
                seen.add(key)
            rep.violation(key, f"extend_system, cell {inp['cell']}, pbc {inp['pbc']}, cutoff {cut}, fractional positions {fpos}: " + "; ".join(msgs[:3]),
                          {"kind": "ext", "cell": inp["cell"], "pbc": pbc, "cutoff": cut, "f": fpos}, reproduced=bool(msgs))
    if built["h16b"][0] and (not only or "H16b" in only):
        todo = X.merge_into(rep, X.run_configs(built["h16b"][0], configs_b(tier)), "H16b")
        seen = set()
        for r, c in todo:
            inp = c["inputs"]
            key = "H16b:" + c["label"]
            if key in seen:
                continue
            cut = float(X.frac(inp["cut"]))
            q = [float(X.frac(v)) for v in inp["q"]]
            pts = [[float(X.frac(v)) for v in row] for row in inp["points"]]
            try:
                ex = (X.frac(inp["cut"]), [X.frac(v) for v in inp["q"]], [[X.frac(v) for v in row] for row in inp["points"]])
            except Exception:
                ex = None
            msgs, _ = X.oracle_cl(nat, cut, q, pts, ex) if nat else (["native replay driver did not compile"], None)
            if msgs:
                seen.add(key)
            rep.violation(key, f"CellList cutoff {cut}, query {q}, points {pts}: " + "; ".join(msgs[:3]), {"kind": "cl", "cutoff": cut, "q": q, "points": pts}, reproduced=bool(msgs))
    if not only or "H16c" in only:
        for k in ((0, 1, 2) if tier == "quick" else (0, 1, 2, 3)):
            rep.merge_stats(explore(h16c(k), f"H16c:k{k}", timeout_ms=20000, budget_s=900), "H16c")
        rep.merge_stats(explore(h16d, "H16d", workers=2, timeout_ms=20000, budget_s=300), "H16d")
        rep.merge_stats(explore(h16e, "H16e", workers=2, timeout_ms=20000, budget_s=300), "H16d")
    if not only:
        rep.require_reached("H16a:copies", "H16b:neighbours", "H16c:match", "H16c:substitution", "H16c:vacancy", "H16d", "H16e")
    rep.bounds = {"H16a": "extend_system: 1 atom (2 for two cells), all three fractional coordinates symbolic in [0,1), symbolic cutoff in (0, cutmax]; cells ortho, tricl, plate, pyth"
                          + ("" if tier == "quick" else ", rot, shear, needle") + " and degenerate cells with 1-3 zero vectors; completeness over omitted offsets within copies+2 (relaxed 3-variable form, strict inequality)",
                  "H16b": "CellList on 1-2 points, one symbolic coordinate per point and query (each axis in turn, others from three fixed grids), cutoff in [1/2,3], query within the points' span widened by one cutoff",
                  "H16c": "get_matches / get_matches_simple with a stub cell list returning <= 2 (3 thorough) neighbours with symbolic distances, symbolic query position and tolerance",
                  "H16d": "get_cell_list / get_extended_system argument forwarding with symbolic extension and cutoff",
                  "H16e": "two consecutive get_cell_list calls on one structure, (extension, cutoff) each from 4 concrete pairs (16 histories)"}
    rep.stubs = ["pybind11 stand-in header", "SymD symbolic scalar", "stub cell list / Atom / ase.geometry.wrap_positions in H16c", "matid.ext recorder in H16d"]
    rep.assumptions = ["exact real arithmetic", "strict form of completeness (an image cell exactly at the cutoff distance is not required)"]
    rep.outside = ["two symbolic axes with two or more points (disc constraints: z3 unknown)", "3 or more points in the CellList harness (one unknown branch condition with 3), more than 2 atoms in extend_system", "floating-point bin-edge effects"]
    return rep.finish()


def replay(d):
    if d["kind"] in ("ext", "cl"):
        nat = X.compile_all(("replay_native",))["replay_native"][0]
        if d["kind"] == "ext":
            msgs, _ = X.oracle_ext(nat, X.CELLS[d["cell"]], d["pbc"], d["cutoff"], d["f"])
        else:
            ex = (F(float(d["cutoff"])), [F(float(v)) for v in d["q"]], [[F(float(v)) for v in p] for p in d["points"]])
            msgs, _ = X.oracle_cl(nat, d["cutoff"], d["q"], d["points"], ex)
        return bool(msgs), "; ".join(msgs[:5]) or "ok"
    if d["kind"] == "matches":
        dd = {k: v for k, v in d.items() if k != "kind"}
        msgs = conc_matches(**dd)
        return bool(msgs), "; ".join(msgs[:5]) or "ok"
    if d["kind"] == "wrapper":
        msgs = conc_cell_list(d["extension"], d["cutoff"], prior=d.get("prior"))
        return bool(msgs), "; ".join(msgs[:4]) or "ok"
    return False, "unknown replay kind"
