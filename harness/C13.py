"""C13 — Cluster.get_dimensionality agrees with get_dimensionality of the cluster's own atoms (Engine A)."""
import numpy as np
import z3

import matid.geometry.geometry as G
import matid.clustering.sbc as SBCM
import matid.clustering.cluster as CLM
from lib.common import Report
from symx.engine import explore
from symx.values import SReal, SBool, zbool, const_array
from symx.npproxy import NPProxy, patched
from symx.stubs import StubAtoms, concrete
from harness import sbc_common as SC

PID = "C13"
NP = NPProxy()


def fval(x, env):
    return float(concrete(np.array([x], dtype=object), env)[0])


def h13(n, k, with_merge):
    def fn(e):
        numbers, D, dist, system, radii, bt, clusters = SC.make_prestate(e, n, k)
        mt = e.real("merge_threshold", lo=0, hi=1)
        mr = e.real("merge_radius")
        index_sets = [list(c.indices) for c in clusters]
        s = SBCM.SBC()
        calls = []

        def rec_dim(system_, cluster_threshold=None, dist_matrix_radii_mic_1x=None, return_clusters=False, radii="covalent"):
            calls.append({"atoms": system_, "thr": cluster_threshold, "matrix": None if dist_matrix_radii_mic_1x is None else np.array(dist_matrix_radii_mic_1x, dtype=object),
                          "radii": radii})
            return ("DIM", len(calls))
        with patched(SBCM, np=NP), patched(G, np=NP), patched(CLM, np=NP), SC.dbscan_stub():
            out = s._merge_clusters(system, clusters, mt, dist, bt) if with_merge else clusters
            out = s._localize_clusters(system, out, mr, dist)
            out = s._clean_clusters(out, bt)
            results = []
            with patched(CLM.matid.geometry, get_dimensionality=rec_dim):
                for c in out:
                    n0 = len(calls)
                    r1 = c.get_dimensionality()
                    r2 = c.get_dimensionality()
                    results.append((c, calls[n0] if len(calls) > n0 else None, r1, r2, len(calls) - n0))

        def cex(env):
            Dv = concrete(D, env)
            rv = [fval(r, env) for r in radii]
            args = dict(numbers=numbers.tolist(), D=Dv, index_sets=index_sets, merge_threshold=fval(mt, env), merge_radius=fval(mr, env), bond_threshold=fval(bt, env),
                        radii=rv, with_merge=with_merge)
            msgs = conc_shortcut(**args)
            return {"key": f"H13:{cex.label}", "what": "Cluster.get_dimensionality: " + "; ".join(msgs), "replay": dict(kind="shortcut", **args), "reproduced": bool(msgs)}

        def mk(label):
            def c(env):
                cex.label = label
                return cex(env)
            return c
        removed = False
        for ci, (c, call, r1, r2, ncalls) in enumerate(results):
            idx = [int(x) for x in c.indices]
            if not idx:
                continue
            e.post("shortcut evaluates get_dimensionality once and caches", ncalls == 1 and r1 is r2, mk("not-cached"))
            if call is None:
                continue
            at = call["atoms"]
            ok_atoms = hasattr(at, "numbers") and len(at) == len(idx) and list(at.numbers) == [int(numbers[i]) for i in idx]
            e.post("shortcut passes the atoms of the current indices", ok_atoms, mk("wrong-atoms"))
            e.post("shortcut passes the clustering's bond threshold", zbool(call["thr"] == bt) if isinstance(call["thr"], SReal) else False, mk("wrong-threshold"))
            M = call["matrix"]
            if M is None:
                # no precomputed matrix: the callee recomputes from the atoms, which is the direct evaluation itself
                e.reach("H13:no-matrix")
            else:
                ok_shape = M.shape == (len(idx), len(idx))
                e.post("forwarded matrix has the shape of the current cluster", ok_shape, mk("stale-matrix-shape"))
                if ok_shape:
                    conds = []
                    hi = bt * 1.1
                    for a in range(len(idx)):
                        for b in range(len(idx)):
                            d = D[idx[a], idx[b]]
                            m = M[a, b]
                            clipped = z3.If(d.z3() < 0, 0, z3.If(d.z3() > hi.z3(), hi.z3(), d.z3()))
                            conds.append(z3.Or(zbool(m == d), m.z3() == clipped))
                    e.post("forwarded matrix = radii-corrected distances of the current atoms", z3.And(*conds), mk("stale-matrix"))
            rr = call["radii"]
            if isinstance(rr, str):
                # a preset is only right when the clustering used that preset; here the clustering used a custom array
                e.post("shortcut forwards the clustering's radii", False, mk("radii-not-forwarded"))
            else:
                rr = np.asarray(rr, dtype=object)
                ok = rr.shape == (len(idx),)
                e.post("shortcut forwards the clustering's radii", z3.And(*[zbool(rr[a] == radii[idx[a]]) for a in range(len(idx))]) if ok else False, mk("radii-not-forwarded"))
            if sorted(idx) not in [sorted(s_) for s_ in index_sets]:
                removed = True
        if removed:
            e.reach("H13:atoms-removed-after-creation")
        def val(env):
            Dv = concrete(D, env)
            th = [fval(bt, env), fval(mr, env), 1.1 * fval(bt, env)]
            if any(abs(Dv[i, j] - t) < 1e-9 for i in range(n) for j in range(n) for t in th + [0.0]):
                return None
            if any(abs(fval(mt, env) - a / b) < 1e-9 for a in range(0, n + 1) for b in range(1, n + 1)):
                return None
            cl, *_ = SC.concrete_postprocess(numbers, Dv, index_sets, fval(mt, env), fval(mr, env), fval(bt, env), radii=[fval(r, env) for r in radii], do_merge=with_merge)
            a = sorted(sorted(int(x) for x in c.indices) for c in cl)
            b = sorted(sorted(int(x) for x in c.indices) for c in out)
            return True if a == b else f"real post-processing gives {a}, symbolic run {b}"
        e.validate_with(val)
        e.reach("H13:clusters")
        e.sample({"numbers": numbers.tolist(), "input_clusters": index_sets, "output_clusters": [sorted(int(x) for x in c.indices) for c in out], "merge_step": with_merge})
    return fn


def conc_shortcut(numbers, D, index_sets, merge_threshold, merge_radius, bond_threshold, radii, with_merge):
    """real code: the shortcut's call into matid.geometry.get_dimensionality is intercepted and compared with the
    direct evaluation's inputs (atoms, threshold, matrix, radii); then both are actually evaluated on the matrix level"""
    numbers = np.array(numbers)
    D = np.array(D, dtype=float)
    cl, system, dist, radii = SC.concrete_postprocess(numbers, D, index_sets, merge_threshold, merge_radius, bond_threshold, radii=radii, do_merge=with_merge)
    msgs = []
    orig = CLM.matid.geometry.get_dimensionality
    for ci, c in enumerate(cl):
        idx = [int(x) for x in c.indices]
        if not idx:
            continue
        rec = {}

        def spy(system_, cluster_threshold=None, dist_matrix_radii_mic_1x=None, return_clusters=False, radii="covalent"):
            rec.update(atoms=system_, thr=cluster_threshold, M=None if dist_matrix_radii_mic_1x is None else np.array(dist_matrix_radii_mic_1x, dtype=float), radii=radii)
            return 0
        CLM.matid.geometry.get_dimensionality = spy
        try:
            c._dimensionality = None
            c.get_dimensionality()
        finally:
            CLM.matid.geometry.get_dimensionality = orig
        # the forwarded atoms, matrix and radii must describe the same atoms in one common order (that of cluster.indices or
        # any other, e.g. sorted); a consistent re-ordering is not a violation
        import itertools
        orders = [idx, sorted(idx)] + ([list(p) for p in itertools.permutations(idx)] if len(idx) <= 4 else [])
        best = None
        for od in orders:
            m_ = []
            if list(rec["atoms"].get_atomic_numbers()) != [int(numbers[i]) for i in od] or len(rec["atoms"]) != len(od):
                m_.append(f"cluster {idx}: the forwarded atoms are not the cluster's atoms")
            if rec["M"] is not None:
                want = D[np.ix_(od, od)]
                wc = np.clip(want, 0, 1.1 * bond_threshold)
                if rec["M"].shape != want.shape:
                    m_.append(f"cluster {idx}: forwarded distance matrix has shape {rec['M'].shape} (stale cache), cluster has {len(idx)} atoms")
                elif not (np.allclose(rec["M"], want) or np.allclose(rec["M"], wc)):
                    m_.append(f"cluster {idx}: forwarded distance matrix is not the matrix of the forwarded atoms")
            rr = rec["radii"]
            if isinstance(rr, str) or np.asarray(rr).shape != (len(od),) or not np.allclose(np.asarray(rr, dtype=float), radii[od]):
                m_.append(f"cluster {idx}: radii {rr if isinstance(rr, str) else 'array'} forwarded are not the clustering's radii of the forwarded atoms")
            if best is None or len(m_) < len(best):
                best = m_
            if not m_:
                break
        msgs += best
        if rec["thr"] != bond_threshold:
            msgs.append(f"cluster {idx}: threshold {rec['thr']} forwarded instead of the bond threshold {bond_threshold}")
    return msgs


def public_api_confirmation():
    """NaCl(100) slab with the Na neighbours of one surface Cl removed: shortcut vs direct evaluation"""
    try:
        from ase.build import bulk, surface
        import ase
        from matid.clustering import SBC
        b = bulk("NaCl", "rocksalt", a=5.64, cubic=True)
        slab = surface(b, (1, 0, 0), 3, vacuum=8)
        slab = slab.repeat((3, 3, 1))
        slab.set_pbc(True)
        z = slab.get_positions()[:, 2]
        top_cl = [i for i in range(len(slab)) if slab.numbers[i] == 17 and abs(z[i] - z.max()) < 0.5]
        if not top_cl:
            return None
        c = top_cl[len(top_cl) // 2]
        d = slab.get_distances(c, range(len(slab)), mic=True)
        rm = [i for i in range(len(slab)) if slab.numbers[i] == 11 and d[i] < 3.0]
        del slab[rm]
        clusters = SBC().get_clusters(slab)
        out = []
        for cl in clusters:
            a = cl.get_dimensionality()
            bdim = G.get_dimensionality(cl.get_atoms(), 0.65)
            out.append((len(cl.indices), a, bdim))
        return out
    except Exception as ex:   # pragma: no cover
        return f"confirmation crashed: {type(ex).__name__}: {ex}"


def main(tier, seed, only=None):
    rep = Report(PID, tier, seed)
    for f in (CLM.Cluster.get_dimensionality, CLM.Cluster._get_distance_matrix_radii_mic, CLM.Cluster.get_atoms, SBCM.SBC._merge_clusters, SBCM.SBC._localize_clusters, SBCM.SBC._clean_clusters, G.get_clusters):
        rep.function(f)
    cfg = [(2, 1, False), (3, 1, False), (2, 2, True), (3, 2, True)] if tier == "quick" else [(2, 1, False), (3, 1, False), (4, 1, False), (2, 2, True), (3, 2, True), (3, 3, True), (4, 2, True)]
    for n, k, wm in cfg:
        name = f"H13:n{n}:k{k}" + (":merge" if wm else "")
        if only and not any(name.startswith(o) for o in only):
            continue
        rep.merge_stats(explore(h13(n, k, wm), name, timeout_ms=20000, budget_s=1500 if tier == "quick" else 5000, chunk_paths=200, chunk_s=15, validate_every=10), "H13")
    if not only:
        rep.require_reached("H13:clusters", "H13:atoms-removed-after-creation")
    rep.bounds = {"clusters": str(cfg), "matrix": "symbolic symmetric radii-corrected distance matrix", "radii": "symbolic custom per-atom array", "thresholds": "symbolic"}
    rep.stubs = ["matid.geometry.get_dimensionality replaced by a recorder (the shortcut's call is compared with the direct evaluation's inputs)", "DBSCANStub", "StubAtoms",
                 "clusters created as in SBC.get_clusters from arbitrary index sets (FinderStub over-approximation)"]
    rep.assumptions = ["equal inputs to get_dimensionality give equal outputs (it is a function of atoms, threshold, matrix, radii)",
                       "the system-wide minimum-image matrix restricted to the cluster equals the matrix of the cluster's own atoms (C10)"]
    rep.outside = ["n > 4 atoms"]
    return rep.finish()


def replay(d):
    msgs = conc_shortcut(d["numbers"], d["D"], d["index_sets"], d["merge_threshold"], d["merge_radius"], d["bond_threshold"], d["radii"], d["with_merge"])
    return bool(msgs), "; ".join(msgs) or "ok"
