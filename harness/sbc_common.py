"""Shared pieces of the C01 / C13 harnesses: stubs for DBSCAN, the region finder, the distance layer, and the
pre-state generator for SBC's post-processing (merge -> localize -> clean)."""
import contextlib
import itertools

import numpy as np
import z3

import matid.geometry.geometry as G
import matid.clustering.sbc as SBCM
import matid.clustering.cluster as CLM
from matid.core.distances import Distances
from symx.values import SReal, SBool, zbool, const_array, eng
from symx.npproxy import NPProxy, patched
from symx.stubs import StubAtoms, concrete


class DBSCANStub:
    """sklearn.cluster.DBSCAN(min_samples=1, metric='precomputed'): every point is a core point, so the labels are
    the connected components of the graph D[i,j] <= eps, numbered in order of their smallest member.  Raises
    ValueError on an empty matrix as sklearn does."""

    def __init__(self, eps=0.5, min_samples=5, metric="euclidean", n_jobs=None, **kw):
        if min_samples != 1 or metric != "precomputed":
            raise NotImplementedError("DBSCANStub models min_samples=1, metric='precomputed' only")
        self.eps = eps

    def fit(self, D):
        D = np.asarray(D)
        n = D.shape[0] if D.ndim == 2 else 0
        if D.ndim != 2 or n == 0 or D.shape[1] != n:
            raise ValueError("Found array with 0 sample(s) (shape=%s) while a minimum of 1 is required by DBSCAN." % (D.shape,))
        parent = list(range(n))

        def find(a):
            while parent[a] != a:
                a = parent[a]
            return a
        for i in range(n):
            for j in range(i + 1, n):
                if find(i) != find(j):
                    near = D[i, j] <= self.eps
                    if bool(near):
                        parent[find(j)] = find(i)
        labels, nxt = {}, 0
        out = []
        for i in range(n):
            r = find(i)
            if r not in labels:
                labels[r] = nxt
                nxt += 1
            out.append(labels[r])
        self.labels_ = np.array(out, dtype=int)
        return self


@contextlib.contextmanager
def dbscan_stub():
    import sklearn.cluster as SC
    old = SC.DBSCAN
    SC.DBSCAN = DBSCANStub
    try:
        yield
    finally:
        SC.DBSCAN = old


class Region:
    """what SBC uses of a PeriodicFinder region"""

    def __init__(self, basis, tag):
        self._basis = set(basis)
        self.cell = ("prototype-cell", tag)
        self.tag = tag

    def get_basis_indices(self):
        return self._basis


def sym_dist_matrix(e, n, name="D"):
    """arbitrary symmetric radii-corrected distance matrix: diagonal <= 0 (0 - 2 r_i), off-diagonal any real"""
    D = np.empty((n, n), dtype=object)
    for i in range(n):
        for j in range(i, n):
            if i == j:
                D[i, i] = e.real(f"{name}_{i}_{i}", hi=0)
            else:
                D[i, j] = D[j, i] = e.real(f"{name}_{i}_{j}")
    return D


def subsets(n):
    return [list(c) for r in range(1, n + 1) for c in itertools.combinations(range(n), r)]


SPECIES_PATTERNS = {1: [[1]], 2: [[1, 1], [1, 2]], 3: [[1, 1, 1], [1, 1, 2], [1, 2, 1], [2, 1, 1]],
                    4: [[1, 1, 1, 1], [1, 1, 2, 2], [1, 2, 1, 2], [1, 2, 2, 2], [2, 1, 1, 1]]}


def make_prestate(e, n, k, radii_mode="array"):
    """k clusters over n atoms as the creation loop of SBC.get_clusters builds them"""
    numbers = np.array(e.pick(SPECIES_PATTERNS[n]))
    D = sym_dist_matrix(e, n)
    dist = Distances(None, None, None, D.copy())
    system = StubAtoms(numbers=numbers, positions=const_array(np.zeros((n, 3))), cell=const_array(np.eye(3) * 10), pbc=True)
    radii = np.array([SReal.sym(f"rad_{i}") for i in range(n)], dtype=object)
    bt = e.real("bond_threshold", lo=0, lo_strict=True)
    subs = subsets(n)
    clusters = []
    for c in range(k):
        idx = e.pick(subs)
        species = set(int(numbers[i]) for i in idx)
        # SBC builds a cluster from a *set* of indices; the iteration order of a set of ints is ascending only for small
        # values (it depends on the hash table size), so both orders are admissible
        # (explored for the first cluster; the others are listed ascending to keep the path count in check)
        members = list(idx) if (c > 0 or len(idx) < 2 or e.choose(2) == 0) else list(idx)[::-1]
        clusters.append(CLM.Cluster(members, species, Region(idx, c), system=system, distances=dist, radii=radii, bond_threshold=bt))
    return numbers, D, dist, system, radii, bt, clusters


def connected_formula(D, idx, thr):
    """z3 formula: the atoms idx form one connected component of the graph D[i,j] <= thr (restricted to idx)"""
    idx = list(idx)
    m = len(idx)
    if m <= 1:
        return z3.BoolVal(True)
    adj = {(a, b): zbool(D[idx[a], idx[b]] <= thr) for a in range(m) for b in range(m) if a != b}
    # reachability from node 0 by m-1 rounds of closure
    reach = [z3.BoolVal(a == 0) for a in range(m)]
    for _ in range(m - 1):
        reach = [z3.Or(reach[a], *[z3.And(reach[b], adj[(b, a)]) for b in range(m) if b != a]) for a in range(m)]
    return z3.And(*reach)


def wellformed_posts(e, clusters, numbers, D, bt, n, cex, prefix=""):
    all_idx = [list(c.indices) for c in clusters]
    e.post(prefix + "index lists non-empty", all(len(i) > 0 for i in all_idx), cex)
    e.post(prefix + "index lists duplicate-free", all(len(set(i)) == len(i) for i in all_idx), cex)
    e.post(prefix + "indices in range", all(0 <= int(x) < n for i in all_idx for x in i), cex)
    flat = [int(x) for i in all_idx for x in i]
    e.post(prefix + "clusters pairwise disjoint", len(flat) == len(set(flat)), cex)
    e.post(prefix + "every atom's element is in the cluster's species",
           all(int(numbers[int(x)]) in c.species for c in clusters for x in c.indices if 0 <= int(x) < n), cex)
    for ci, c in enumerate(clusters):
        if all(0 <= int(x) < n for x in c.indices) and len(c.indices) > 0:
            e.post(prefix + f"cluster {ci} is one bonded component", connected_formula(D, [int(x) for x in c.indices], bt), cex)


# -------------------------------------------------------------------------------- concrete replay of the post-processing
def concrete_postprocess(numbers, Dv, index_sets, merge_threshold, merge_radius, bond_threshold, radii=None, do_merge=True):
    """real code, real numpy, real sklearn: the same three steps on a concrete matrix"""
    from ase import Atoms
    n = len(numbers)
    system = Atoms(numbers=numbers, positions=np.zeros((n, 3)), cell=np.eye(3) * 10, pbc=True)
    dist = Distances(None, None, None, np.array(Dv, dtype=float))
    radii = np.ones(n) * 0.5 if radii is None else np.array(radii, dtype=float)
    clusters = [CLM.Cluster(list(idx), set(int(numbers[i]) for i in idx), Region(idx, c), system=system, distances=dist,
                            radii=radii, bond_threshold=bond_threshold) for c, idx in enumerate(index_sets)]
    s = SBCM.SBC()
    if do_merge:
        clusters = s._merge_clusters(system, clusters, merge_threshold, dist, bond_threshold)
    clusters = s._localize_clusters(system, clusters, merge_radius, dist)
    clusters = s._clean_clusters(clusters, bond_threshold)
    return clusters, system, dist, radii


def concrete_wellformed(clusters, numbers, Dv, bt):
    n = len(numbers)
    Dv = np.array(Dv, dtype=float)
    msgs = []
    flat = []
    for ci, c in enumerate(clusters):
        idx = [int(x) for x in c.indices]
        if not idx:
            msgs.append(f"cluster {ci} is empty")
        if len(set(idx)) != len(idx):
            msgs.append(f"cluster {ci} has duplicate indices {idx}")
        if any(x < 0 or x >= n for x in idx):
            msgs.append(f"cluster {ci} has out-of-range indices {idx}")
            continue
        for x in idx:
            if int(numbers[x]) not in c.species:
                msgs.append(f"cluster {ci}: atom {x} (Z={int(numbers[x])}) not in species {sorted(c.species)}")
        flat += idx
        # connectivity
        if idx:
            seen, todo = {idx[0]}, [idx[0]]
            while todo:
                a = todo.pop()
                for b in idx:
                    if b not in seen and Dv[a, b] <= bt:
                        seen.add(b)
                        todo.append(b)
            if len(seen) != len(set(idx)):
                msgs.append(f"cluster {ci} {idx} is not one bonded component")
    if len(flat) != len(set(flat)):
        msgs.append("clusters overlap")
    return msgs
