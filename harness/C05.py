"""C05 — the conventional cell is the same crystal as the input, chirality preserved (Engine A + T, spglib by contract)."""
import os
from fractions import Fraction as F

import numpy as np
import z3

import matid.symmetry.symmetryanalyzer as SA
import matid.geometry.geometry as G
from lib.common import Report
from symx.engine import explore
from symx.values import SReal, zbool
from symx.stubs import concrete
from harness import sym_common as S
from tables import refgroups as RG

PID = "C05"


def _atoms_of(sg, occ, vals, lat=None):
    from ase import Atoms
    pos, nums = [], []
    for (letter, Z), v in zip(occ, vals):
        for p in S.orbit(sg, letter):
            pos.append([x % 1 for x in p.value(v)])
            nums.append(Z)
    lat = np.array(S.std_lattice(sg), dtype=float) if lat is None else lat
    return Atoms(numbers=nums, scaled_positions=pos, cell=lat, pbc=True)


def _judge(sg, an, conv, ds, independent=True):
    import spglib
    msgs = []
    T = np.asarray(an._best_transform["transformation"], dtype=float)
    if RG.is_sohncke(sg) and np.linalg.det(T[:3, :3]) < 0:
        msgs.append(f"chiral space group {sg}: the chosen transformation has determinant {np.linalg.det(T[:3, :3]):.0f} (mirror image returned)")
    f_new = conv.get_scaled_positions(wrap=False)
    f_old = np.asarray(ds.std_positions, dtype=float)
    want = f_old @ T[:3, :3].T + T[:3, 3]
    if f_new.shape != want.shape or np.abs((f_new - want) - np.round(f_new - want)).max() > 1e-6:
        msgs.append("conventional positions are not the chosen rigid motion applied to spglib's standardized atoms (mod lattice)")
    if f_new.min() < -1e-9 or f_new.max() >= 1 + 1e-9:
        msgs.append("conventional positions outside [0,1)")
    if list(conv.get_atomic_numbers()) != list(ds.std_types) or not np.allclose(np.array(conv.get_cell()), np.asarray(ds.std_lattice, dtype=float)):
        msgs.append("composition or lattice changed")
    if independent:
        ds2 = spglib.get_symmetry_dataset((np.array(conv.get_cell()), conv.get_scaled_positions(), conv.get_atomic_numbers()), symprec=1e-4)
        if ds2 is None or ds2.number != sg:
            msgs.append(f"independent symmetry search on the result gives space group {None if ds2 is None else ds2.number}, input has {sg}")
    return msgs, T


def conc_conventional(sg, occ, vals, lat=None, prev=None):
    """two replay levels: (1) real analyzer, real spglib, real ASE on the concrete crystal built from the Hall-database orbits
    (after `prev` = (occupation, parameters) analysed first on the same analyzer object, if given); (2) the same with spglib's
    dataset scripted as the contract dataset of the symbolic path (the witness may have accidental extra symmetry for spglib)"""
    msgs, T = [], None
    try:
        if prev is not None:
            an = SA.SymmetryAnalyzer(_atoms_of(sg, prev[0], prev[1], lat), symmetry_tol=1e-4)
            an.get_conventional_system()
            an.set_system(_atoms_of(sg, occ, vals, lat))
        else:
            an = SA.SymmetryAnalyzer(_atoms_of(sg, occ, vals, lat), symmetry_tol=1e-4)
        conv = an.get_conventional_system()
        ds = an.get_symmetry_dataset()
        if ds.number == sg:     # else: spglib sees another group (accidental extra symmetry of this witness)
            msgs, T = _judge(sg, an, conv, ds)
    except Exception as ex:
        msgs = [f"get_conventional_system raised {type(ex).__name__}: {ex}"]
    if msgs or lat is not None:
        return msgs, T
    dss = ([S.concrete_dataset(sg, prev[0], prev[1])] if prev is not None else []) + [S.concrete_dataset(sg, occ, vals)]
    ses = S.RealSession(dss)
    with ses.active():
        try:
            an = ses.start()
            if prev is not None:
                an.get_conventional_system()
                an = ses.switch(1)
            conv = an.get_conventional_system()
            msgs, T = _judge(sg, an, conv, dss[-1], independent=False)
        except Exception as ex:
            msgs = [f"get_conventional_system raised {type(ex).__name__}: {ex}"]
    return ["[spglib dataset scripted] " + m for m in msgs], T


def make_fn(sg, occs, reuse=False):
    cands = {k: p for k, p in S.candidate_transforms(sg)}
    sohncke = RG.is_sohncke(sg)

    def fn(e):
        occ = e.pick(occs)
        ds = S.make_dataset(e, sg, occ)
        prev_ds = None
        if reuse:
            # the analyzer object has analysed another crystal before (set_system must leave nothing of it behind)
            prev_ds = S.make_dataset(e, sg, e.pick(occs), tag="P")
        ses = S.Session([prev_ds, ds] if reuse else [ds])
        exc = None
        with ses.active():
            try:
                an = ses.start()
                if reuse:
                    an.get_conventional_system()
                    an = ses.switch(1)
                conv = an.get_conventional_system()
                bt = an._best_transform
            except Exception as ex:     # noqa: BLE001
                exc = ex

        def cex(env):
            vals = [[float(S.concrete(np.array([x], dtype=object), env)[0]) if isinstance(x, SReal) else float(x) for x in p] for p in ds["_params"]]
            prev = None
            if reuse:
                prev = (prev_ds["_occupation"], [[float(S.concrete(np.array([x], dtype=object), env)[0]) if isinstance(x, SReal) else float(x) for x in p] for p in prev_ds["_params"]])
            msgs, T = conc_conventional(sg, occ, vals, prev=prev)
            return {"key": f"H05:sg{sg}:{cex.label}", "what": f"space group {sg}, occupation {occ}" + (f" (analyzer reused after {prev[0]})" if prev else "") + ": " + "; ".join(msgs),
                    "replay": {"kind": "conventional", "sg": sg, "occupation": [list(o) for o in occ], "params": vals, "prev": [[list(o) for o in prev[0]], prev[1]] if prev else None}, "reproduced": bool(msgs)}

        def mk(label):
            def c(env):
                cex.label = label
                return cex(env)
            return c
        if exc is not None:
            e.post("get_conventional_system returns normally", False, mk(f"raises:{type(exc).__name__}"))
            return
        T = np.asarray(bt["transformation"])
        try:
            key = S.tkey(T)
        except Exception:
            key = None
        e.post("chosen transformation is the identity or a tabulated normalizer (C14 obligations apply)", key in cands, mk("untabulated-transformation"))
        if key is None:
            return
        Pm = [list(r[:3]) for r in key[:3]]
        t = [r[3] for r in key[:3]]
        if sohncke:
            e.post("chiral group: chosen transformation is proper", RG.det3(Pm) > 0, mk("improper"))
        f_new = conv.get_scaled_positions(wrap=False)
        f_old = ds.std_positions
        n = len(f_old)
        ok_n = len(f_new) == n and list(conv.get_atomic_numbers()) == list(ds.std_types)
        e.post("same atoms (count, species, order)", ok_n, mk("atoms-changed"))
        cell_same = all(zbool(a == b) is not None and bool(a == b) for a, b in zip(np.ravel(conv.get_cell()), np.ravel(ds.std_lattice)))
        e.post("standardized lattice kept, fully periodic", cell_same and all(conv.get_pbc()), mk("lattice-changed"))
        if ok_n:
            conds = []
            for i in range(n):
                for c in range(3):
                    want = sum(f_old[i][k] * Pm[c][k] for k in range(3)) + t[c]
                    d = f_new[i][c] - want
                    conds.append(z3.IsInt(d.z3()) if not d.is_const() else z3.BoolVal(d.cval().denominator == 1))
                    conds.append(z3.And(f_new[i][c].rel(lambda a, b: a >= b), f_new[i][c].rel(lambda a, b: a < b, 1)))
            e.post("positions = chosen rigid motion of the standardized atoms (mod lattice), inside [0,1)", z3.And(*conds), mk("positions"))
        if not reuse:
            e.validate_with(lambda env: S.validate_against_real(sg, ds, env, key, f_new, an.get_wyckoff_letters_conventional()))
        else:
            e.reach("H05:reuse")
        e.reach("H05:identity" if key == S.IDENTITY_KEY else "H05:normalizer-applied")
        e.sample({"space_group": sg, "occupation": occ, "chosen": "identity" if key == S.IDENTITY_KEY else [[str(v) for v in r] for r in key[:3]]})
    return fn


def orbit_bound(sg, tier):
    L = len(S.letters_of(sg))
    if tier == "quick":
        return 2
    return 3 if L <= 10 else 2


def run_group(arg):
    sg, tier = arg
    occs = S.occupations(sg, orbit_bound(sg, tier), S.ELEMENTS)
    st = explore(make_fn(sg, occs), f"H05:sg{sg}", workers=1, timeout_ms=20000, budget_s=3000, validate_every=10)
    # analyzer reuse: ordered pairs of single-orbit occupations
    occ1 = S.occupations(sg, 1, S.ELEMENTS)[: (5 if tier == "quick" else 10)]
    st2 = explore(make_fn(sg, occ1, True), f"H05r:sg{sg}", workers=1, timeout_ms=20000, budget_s=3000)
    for k in ("paths", "forks", "obligations", "discharged", "validated", "solver_s", "wall_s"):
        st[k] += st2[k]
    for k in ("unsat", "sat", "unknown"):
        st["queries"][k] += st2["queries"][k]
    for l, v in st2["reach"].items():
        st["reach"][l] = st["reach"].get(l, 0) + v
    for k in ("inconclusive", "harness_errors", "violations"):
        st[k].extend(st2[k])
    return sg, st, len(occs)


def main(tier, seed, only=None):
    import multiprocessing as mp
    rep = Report(PID, tier, seed)
    for f in (SA.SymmetryAnalyzer._find_wyckoff_ground_state, SA.SymmetryAnalyzer.get_conventional_system, SA.SymmetryAnalyzer._get_spglib_conventional_system,
              SA.SymmetryAnalyzer._get_spglib_wyckoff_letters_conventional, SA.SymmetryAnalyzer.set_system, SA.SymmetryAnalyzer.reset, G.get_wrapped_positions):
        rep.function(f)
    groups = [int(x) for x in only] if only else list(range(1, 231))
    order = sorted(groups, key=lambda g: -len(S.occupations(g, orbit_bound(g, tier), S.ELEMENTS)) * len(RG.group_ops(g)))
    nocc = 0
    with mp.get_context("fork").Pool(16) as pool:
        for sg, st, n in pool.imap_unordered(run_group, [(g, tier) for g in order], chunksize=1):
            rep.merge_stats(st, "H05")
            nocc += n
    if not only:
        rep.require_reached("H05:identity", "H05:normalizer-applied", "H05:reuse")
    rep.bounds = {"space_groups": len(groups), "occupations": nocc,
                  "orbits": "quick: <= 2 orbits, every group; thorough: <= 3 orbits for groups with <= 10 Wyckoff letters, 2 otherwise",
                  "reuse": "one analyzer object, a first crystal analysed, then set_system: ordered pairs of the first 5 (10) single-orbit occupations per group",
                  "species": "<= 2 (3) distinct species by rank", "parameters": "symbolic Wyckoff parameters in [1/50, 49/50]"}
    rep.stubs = ["SpglibContract: std_lattice/std_positions/std_types/wyckoffs/mappings of a crystal given in the standard setting, built from the Hall-database orbits",
                 "StubAtoms / StubSystem", "get_wrapped_positions by its exact-arithmetic contract (x mod 1); the 1e-5 snap is checked in C08"]
    rep.assumptions = ["spglib's standardisation is correct (first half of the statement)", "C14: every tabulated normalizer maps the group onto itself and preserves the metric (checked there for the same rows)"]
    rep.outside = ["that std_lattice/std_positions describe the input crystal (spglib)", "input given as supercell / sheared basis (enters only through spglib)"]
    return rep.finish()


def replay(d):
    prev = d.get("prev")
    msgs, T = conc_conventional(d["sg"], [tuple(o) for o in d["occupation"]], d["params"], prev=([tuple(o) for o in prev[0]], prev[1]) if prev else None)
    return bool(msgs), "; ".join(msgs) or "ok"
