#!/bin/bash
# Idempotent, offline: builds /verif/.venv as an overlay over /venv (which holds
# matid's own dependencies) and adds the solver stack from the local wheelhouse.
set -e
VERIF="$(cd "$(dirname "$0")/.." && pwd)"
VENV="$VERIF/.venv"
WHEELS=/opt/veriftools/wheels
exec 9>"$VERIF/.env.lock"
flock 9
if [ -x "$VENV/bin/python" ] && "$VENV/bin/python" -c "import z3, sympy, cvc5, matid, numpy" 2>/dev/null; then
    exit 0
fi
rm -rf "$VENV"
/venv/bin/python -m venv "$VENV"
SP="$("$VENV/bin/python" -c 'import sysconfig; print(sysconfig.get_paths()["purelib"])')"
printf '%s\n%s\n' "/venv/lib/python3.12/site-packages" "/repo" > "$SP/verif_overlay.pth"
PIP_NO_INDEX=1 "$VENV/bin/pip" install -q --no-index --find-links "$WHEELS" z3-solver sympy mpmath cvc5 >/dev/null
"$VENV/bin/python" -c "import z3, sympy, cvc5, matid, numpy; print('env ok', z3.get_version_string())"
