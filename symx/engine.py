"""Engine A: depth-first path exploration by re-execution with a decision prefix.

A harness is a function fn(eng) that builds symbolic inputs (eng.real/eng.int/...),
states preconditions (eng.assume), runs the real code, and registers obligations
(eng.post), must-reach labels (eng.reach), samples and a witness-validation closure.
"""
import itertools
import multiprocessing as mp
import os
import time
import traceback
from fractions import Fraction as F

import z3

from . import values as V
from .values import SReal, SBool


class Abort(BaseException):
    """infeasible path"""


class Inconclusive(BaseException):
    """solver said unknown"""


class Engine:
    def __init__(self, prefix, timeout_ms=20000, logic="lira"):
        # "nra": polynomial real arithmetic only -> the nlsat tactic (orders of magnitude faster than the default
        # incremental solver on these queries; measured 64 s -> 0.17 s); "lira": z3's default solver (Int/IsInt/UF)
        self.logic = logic
        self.solver = z3.Tactic("qfnra-nlsat").solver() if logic == "nra" else z3.Solver()
        self.solver.set("timeout", timeout_ms)
        self.timeout_ms = timeout_ms
        self.decisions = list(prefix)
        self.cursor = 0
        self.new_work = []
        self.fresh = itertools.count()
        self.n_checks = 0
        self.solver_s = 0.0
        self.q = {"unsat": 0, "sat": 0, "unknown": 0}
        self.posts = []          # (label, z3 bool, cex callable or None)
        self.reached = []
        self.samples = []
        self.validator = None
        self.sqrt_names = {}
        self.sqrt_defs = {}
        self.assumed_tags = set()
        self.inputs = {}         # name -> SReal (declared inputs, for model extraction)
        self.forks = 0
        self.notes = []
        self.known = {}
        self._keep = []
        self.floor_args = {}
        self.floor_memo = {}

    # ---------------------------------------------------------------- solver access
    def check(self, *extra):
        t0 = time.time()
        r = str(self.solver.check(*extra))
        self.last = self.solver
        if r == "unknown":
            # second opinion: nlsat tactic on the same assertions
            try:
                s2 = z3.Solver() if self.logic == "nra" else z3.Tactic("qfnra-nlsat").solver()
                s2.set("timeout", self.timeout_ms)
                s2.add(self.solver.assertions())
                s2.add(*extra)
                r2 = str(s2.check())
                if r2 in ("sat", "unsat"):
                    r = r2
                    self.last = s2
            except z3.Z3Exception:
                pass
        self.solver_s += time.time() - t0
        self.n_checks += 1
        self.q[r if r in ("sat", "unsat") else "unknown"] += 1
        return r

    def assume(self, cond, tag=None):
        if tag is not None:
            if tag in self.assumed_tags:
                return
            self.assumed_tags.add(tag)
        if isinstance(cond, SBool):
            cond = cond.e
        if isinstance(cond, bool):
            if not cond:
                raise Abort()
            return
        self.solver.add(cond)

    def branch(self, cond):
        if isinstance(cond, SBool):
            cond = cond.e
        if isinstance(cond, bool):
            return cond
        cond = z3.simplify(cond)
        if z3.is_true(cond):
            return True
        if z3.is_false(cond):
            return False
        # a condition already decided on this path (e.g. the same determinant != 0 at every division) needs no query
        cid = cond.get_id()
        hit = self.known.get(cid)
        if hit is not None:
            return hit
        if z3.is_not(cond):
            hit = self.known.get(cond.arg(0).get_id())
            if hit is not None:
                return not hit
        if self.cursor < len(self.decisions):
            d = self.decisions[self.cursor]
        else:
            t = self.check(cond)
            f = self.check(z3.Not(cond))
            if t == "unknown" or f == "unknown":
                raise Inconclusive(f"branch feasibility unknown: {str(cond)[:200]}")
            if t == "sat" and f == "sat":
                self.new_work.append(self.decisions[:self.cursor] + [False])
                d = True
                self.forks += 1
            elif t == "sat":
                d = True
            elif f == "sat":
                d = False
            else:
                raise Abort()
            self.decisions.append(d)
        self.cursor += 1
        self.solver.add(cond if d else z3.Not(cond))
        self.known[cid] = bool(d)
        self._keep.append(cond)
        return bool(d)

    def choose(self, n, label=None):
        """environment nondeterminism: returns an index in range(n); every index is explored."""
        if n <= 0:
            raise Abort()
        if n == 1:
            return 0
        if self.cursor < len(self.decisions):
            d = self.decisions[self.cursor]
        else:
            for k in range(n - 1, 0, -1):
                self.new_work.append(self.decisions[:self.cursor] + [("c", k)])
            d = ("c", 0)
            self.decisions.append(d)
            self.forks += n - 1
        self.cursor += 1
        return d[1]

    def pick(self, options, label=None):
        options = list(options)
        return options[self.choose(len(options), label)]

    def concretize_int(self, x, lo=None, hi=None):
        """fork over the feasible integer values of x (SReal, integer valued)."""
        if x.is_const():
            return int(x.cval())
        term = x.z3()
        while True:
            if self.cursor < len(self.decisions):
                d = self.decisions[self.cursor]
                self.cursor += 1
                if d[0] == "i":
                    self.solver.add(term == d[1])
                    return d[1]
                self.solver.add(term != d[1])
                continue
            r = self.check()
            if r == "unknown":
                raise Inconclusive("concretize_int: unknown")
            if r == "unsat":
                raise Abort()
            m = self.last.model()
            v = m.eval(term, model_completion=True)
            v = F(str(v))
            if v.denominator != 1:
                raise Inconclusive(f"concretize_int: non-integer model value {v}")
            v = int(v)
            r2 = self.check(term != v)
            if r2 == "unknown":
                raise Inconclusive("concretize_int: unknown")
            if r2 == "sat":
                self.new_work.append(self.decisions[:self.cursor] + [("n", v)])
                self.forks += 1
            self.decisions.append(("i", v))
            self.cursor += 1
            self.solver.add(term == v)
            return v

    # ---------------------------------------------------------------- inputs
    def real(self, name, lo=None, hi=None, lo_strict=False, hi_strict=False):
        x = SReal.sym(name)
        self.inputs[name] = x
        if lo is not None:
            self.assume(x.rel((lambda a, b: a > b) if lo_strict else (lambda a, b: a >= b), lo))
        if hi is not None:
            self.assume(x.rel((lambda a, b: a < b) if hi_strict else (lambda a, b: a <= b), hi))
        return x

    def int(self, name, lo=None, hi=None):
        x = SReal.sym(name, isint=True)
        self.inputs[name] = x
        if lo is not None:
            self.assume(x.rel(lambda a, b: a >= b, lo))
        if hi is not None:
            self.assume(x.rel(lambda a, b: a <= b, hi))
        return x

    def real_array(self, name, shape, **kw):
        import numpy as np
        a = np.empty(shape, dtype=object)
        for idx in np.ndindex(*shape):
            a[idx] = self.real(name + "_" + "_".join(map(str, idx)), **kw)
        return a

    # ---------------------------------------------------------------- obligations
    def post(self, label, cond, cex=None):
        """obligation: cond must hold on this path.  cex(env, model) -> dict(key, what, replay, reproduced)"""
        if isinstance(cond, SBool):
            cond = cond.e
        if isinstance(cond, (bool,)) or cond is True or cond is False:
            cond = z3.BoolVal(bool(cond))
        self.posts.append((label, cond, cex))

    def reach(self, label):
        self.reached.append(label)

    def sample(self, s):
        self.samples.append(s)

    def validate_with(self, fn):
        """fn(env) -> True (agrees) / None (skipped: boundary witness) / str (disagreement = harness error)"""
        self.validator = fn

    # ---------------------------------------------------------------- models
    def env_of(self, model, exact=True):
        env = _Env()
        for name in list(V._Z3VARS):
            t = V._Z3VARS[name]
            v = model.eval(t, model_completion=True)
            try:
                if z3.is_rational_value(v):
                    env[name] = F(v.numerator_as_long(), v.denominator_as_long())
                elif z3.is_int_value(v):
                    env[name] = F(v.as_long())
                elif z3.is_algebraic_value(v):
                    env[name] = float(v.approx(20).as_fraction())
                else:
                    env[name] = F(str(v))
            except Exception:
                try:
                    env[name] = float(str(v).rstrip("?"))
                except Exception:
                    env[name] = F(0)
        return env


class _Env(dict):
    """model values; symbols the solver never saw are unconstrained: give them a fixed generic value"""

    def __missing__(self, name):
        import zlib
        h = zlib.crc32(name.encode())
        v = F(h % 89 + 7, 23) * (1 if h % 2 else -1)
        self[name] = v
        return v


# ------------------------------------------------------------------------------------ driver
_FN = {}


def _new_stats():
    return {"paths": 0, "forks": 0, "obligations": 0, "discharged": 0, "validated": 0, "validation_skipped": 0,
            "queries": {"unsat": 0, "sat": 0, "unknown": 0}, "solver_s": 0.0, "samples": [], "reach": {},
            "inconclusive": [], "harness_errors": [], "violations": [], "aborted": 0, "wall_s": 0.0}


def _merge(a, b):
    for k in ("paths", "forks", "obligations", "discharged", "validated", "validation_skipped", "aborted"):
        a[k] += b[k]
    for k in ("unsat", "sat", "unknown"):
        a["queries"][k] += b["queries"][k]
    a["solver_s"] += b["solver_s"]
    a["wall_s"] += b.get("wall_s", 0.0)
    if len(a["samples"]) < 4:
        a["samples"].extend(b["samples"][:4 - len(a["samples"])])
    for l, n in b["reach"].items():
        a["reach"][l] = a["reach"].get(l, 0) + n
    a["inconclusive"].extend(b["inconclusive"][:20])
    a["harness_errors"].extend(b["harness_errors"][:20])
    a["violations"].extend(b["violations"])


_LOGIC = {}
_VALIDATE_EVERY = {}
_PRECHECK = {}


def run_path(fn, prefix, st, timeout_ms, name):
    """execute one path; returns list of new prefixes"""
    e = Engine(prefix, timeout_ms, _LOGIC.get(name, "lira"))
    V.CTX.eng = e
    try:
        try:
            fn(e)
        except Abort:
            st["aborted"] += 1
            return e.new_work
        except Inconclusive as ex:
            st["inconclusive"].append(f"{name} prefix={_pfx(e.decisions)}: {ex}")
            st["paths"] += 1
            return e.new_work
        except Exception as ex:
            tb = traceback.format_exc().splitlines()
            st["harness_errors"].append(f"{name} prefix={_pfx(e.decisions)}: unhandled {type(ex).__name__}: {ex} @ {' | '.join(tb[-5:-1])[-400:]}")
            st["paths"] += 1
            return e.new_work
        # the path condition must be satisfiable: this is the reachability twin of every obligation
        r = e.check()
        if r == "unsat":
            st["aborted"] += 1
            return e.new_work
        if r == "unknown":
            st["inconclusive"].append(f"{name} prefix={_pfx(e.decisions)}: path condition unknown")
            st["paths"] += 1
            return e.new_work
        model = e.last.model()
        do_validate = e.validator is not None and (st["paths"] % _VALIDATE_EVERY.get(name, 1) == 0)
        if do_validate:
            model = _diversify(e, model)
        st["paths"] += 1
        for l in e.reached:
            st["reach"][l] = st["reach"].get(l, 0) + 1
        env = e.env_of(model)
        for (label, cond, cex) in e.posts:
            st["obligations"] += 1
            c = z3.simplify(cond)
            if z3.is_true(c):
                st["discharged"] += 1
                continue
            rr = None
            if not z3.is_false(c) and _PRECHECK.get(name, False):
                # an obligation that is valid on its own (without the path condition) is valid on the path
                s0 = z3.Solver()
                s0.set("timeout", 3000)
                s0.add(z3.Not(c))
                t0 = time.time()
                if str(s0.check()) == "unsat":
                    rr = "unsat"
                    e.q["unsat"] += 1
                e.solver_s += time.time() - t0
            if rr is None:
                rr = "sat" if z3.is_false(c) else e.check(z3.Not(cond))
            if rr == "unsat":
                st["discharged"] += 1
            elif rr == "unknown":
                st["inconclusive"].append(f"{name} prefix={_pfx(e.decisions)}: obligation '{label}' unknown")
            else:
                if z3.is_false(c):
                    m2, env2 = model, env
                else:
                    m2 = e.last.model()
                    env2 = e.env_of(m2)
                v = None
                if cex is not None:
                    try:
                        v = cex(env2)
                    except Exception as ex:
                        v = {"key": f"{name}:{label}", "what": f"counterexample replay crashed: {type(ex).__name__}: {ex}",
                             "replay": {}, "reproduced": False}
                if v is None:
                    v = {"key": f"{name}:{label}", "what": f"obligation '{label}' refuted by the solver; no concrete replay available",
                         "replay": {"env": {k: str(x) for k, x in env2.items() if k in e.inputs}}, "reproduced": False}
                st["violations"].append(v)
        if do_validate:
            try:
                res = e.validator(env)
            except Exception as ex:
                res = f"validator crashed: {type(ex).__name__}: {ex} {traceback.format_exc().splitlines()[-3:]}"
            if res is True:
                st["validated"] += 1
            elif res is None:
                st["validation_skipped"] += 1
            else:
                st["harness_errors"].append(f"{name} prefix={_pfx(e.decisions)}: witness replay disagrees with the symbolic run: {res}")
        if e.samples and len(st["samples"]) < 3:
            st["samples"].append({"harness": name, "decisions": _pfx(e.decisions), "path_condition_size": len(e.solver.assertions()),
                                  "witness": {k: str(env.get(k)) for k in list(e.inputs)[:12]}, "info": e.samples[:3]})
        return e.new_work
    finally:
        st["forks"] += e.forks
        st["solver_s"] += e.solver_s
        for k in ("unsat", "sat", "unknown"):
            st["queries"][k] += e.q[k]
        V.CTX.eng = None


def _diversify(e, model):
    """pull the witness away from the trivial corner (zeros, ties) the solver likes: pin inputs one by one to fixed
    generic values while the path condition stays satisfiable"""
    import zlib
    e.solver.push()
    e.solver.set("timeout", 300)
    t0 = time.time()
    try:
        for name in list(e.inputs)[:24]:
            if time.time() - t0 > 2.0:
                break
            h = zlib.crc32(name.encode())
            for cand in (F(h % 83 + 5, 37) * (1 if h % 2 else -1), F(h % 61 + 3, 97), F(h % 7 + 1, 1)):
                t = V.z3var(name)
                if e.inputs[name].isint:
                    cand = F(int(cand) % 4 - 1)
                c = t == z3.RealVal(str(cand))
                if str(e.solver.check(c)) == "sat":
                    e.solver.add(c)
                    break
        if str(e.solver.check()) == "sat":
            model = e.solver.model()
    finally:
        e.solver.pop()
        e.solver.set("timeout", e.timeout_ms)
    return model


def _pfx(d):
    return "".join("T" if x is True else "F" if x is False else f"[{x[0]}{x[1]}]" for x in d)[:120]


def _task(arg):
    name, prefix, max_paths, max_s, timeout_ms = arg
    fn = _FN[name]
    st = _new_stats()
    work = [prefix]
    t0 = time.time()
    n = 0
    while work and n < max_paths and time.time() - t0 < max_s:
        p = work.pop()
        work.extend(run_path(fn, p, st, timeout_ms, name))
        n += 1
    st["wall_s"] = time.time() - t0
    return st, work


def explore(fn, name, workers=None, timeout_ms=20000, max_paths=None, budget_s=None, chunk_paths=25, chunk_s=20.0, logic="lira", validate_every=1, precheck=False):
    """Explore all paths of fn.  Returns merged statistics; st['truncated'] tells whether a budget cut the search."""
    workers = workers or min(16, os.cpu_count() or 1)
    _FN[name] = fn
    _LOGIC[name] = logic
    _VALIDATE_EVERY[name] = validate_every
    _PRECHECK[name] = precheck
    total = _new_stats()
    total["truncated"] = False
    t0 = time.time()
    # seed sequentially until there is enough work to shard
    work = [[]]
    while work and len(work) < 2 * workers and total["paths"] + total["aborted"] < 4 * workers:
        p = work.pop()
        work.extend(run_path(fn, p, total, timeout_ms, name))
        if budget_s and time.time() - t0 > budget_s:
            break
    if work:
        if workers == 1:
            while work:
                if (max_paths and total["paths"] >= max_paths) or (budget_s and time.time() - t0 > budget_s):
                    total["truncated"] = True
                    break
                p = work.pop()
                work.extend(run_path(fn, p, total, timeout_ms, name))
        else:
            ctx = mp.get_context("fork")
            with ctx.Pool(workers) as pool:
                pending = []
                while work or pending:
                    stop = (max_paths and total["paths"] >= max_paths) or (budget_s and time.time() - t0 > budget_s)
                    if stop:
                        total["truncated"] = bool(work or pending)
                        break
                    while work and len(pending) < 3 * workers:
                        pending.append(pool.apply_async(_task, ((name, work.pop(), chunk_paths, chunk_s, timeout_ms),)))
                    done = [r for r in pending if r.ready()]
                    if not done:
                        time.sleep(0.01)
                        continue
                    for r in done:
                        pending.remove(r)
                        st, more = r.get()
                        _merge(total, st)
                        work.extend(more)
                pool.terminate()
    total["wall_s"] = time.time() - t0
    if total["truncated"]:
        total["inconclusive"].append(f"{name}: exploration truncated by budget after {total['paths']} paths")
    if total["paths"] == 0:
        total["harness_errors"].append(f"{name}: vacuity: no feasible path reached the assertions")
    return total
