"""Thin proxy installed as the name `np` in the namespace of the module under test.

Everything is forwarded to real numpy (operating on dtype=object arrays holding the
symbolic scalars) except what goes through a C boundary that cannot carry objects.
"""
import contextlib
import itertools

import numpy as np

from .values import SReal, SBool, Inf, to_obj, lift, eng, F, ONE


def _is_sym(a):
    a = np.asarray(a) if not isinstance(a, np.ndarray) else a
    return a.dtype == object


def det3(m):
    return (m[0, 0] * (m[1, 1] * m[2, 2] - m[1, 2] * m[2, 1])
            - m[0, 1] * (m[1, 0] * m[2, 2] - m[1, 2] * m[2, 0])
            + m[0, 2] * (m[1, 0] * m[2, 1] - m[1, 1] * m[2, 0]))


def _nonzero(d):
    r = d != 0
    return bool(r)


def inv3(A):
    A = to_obj(A)
    if A.shape != (3, 3):
        raise NotImplementedError("symbolic inverse only for 3x3")
    d = det3(A)
    if not _nonzero(d):
        raise np.linalg.LinAlgError("Singular matrix")
    out = np.empty((3, 3), dtype=object)
    for i in range(3):
        for j in range(3):
            # cofactor C_ji
            r = [k for k in range(3) if k != j]
            c = [k for k in range(3) if k != i]
            minor = A[r[0], c[0]] * A[r[1], c[1]] - A[r[0], c[1]] * A[r[1], c[0]]
            out[i, j] = (minor if (i + j) % 2 == 0 else -minor) / d
    return out


def solve3(A, B):
    A = to_obj(A)
    B = to_obj(B)
    inv = inv3(A)
    return np.dot(inv, B)


class _Linalg:
    LinAlgError = np.linalg.LinAlgError

    def __getattr__(self, k):
        return getattr(np.linalg, k)

    def solve(self, A, B):
        if _is_sym(A) or _is_sym(B):
            return solve3(A, B)
        return np.linalg.solve(A, B)

    def inv(self, A):
        if _is_sym(A):
            return inv3(A)
        return np.linalg.inv(A)

    def det(self, A):
        if _is_sym(A):
            return det3(to_obj(A))
        return np.linalg.det(A)

    def norm(self, x, ord=None, axis=None, keepdims=False):
        x = np.asarray(x)
        if x.dtype != object:
            return np.linalg.norm(x, ord=ord, axis=axis, keepdims=keepdims)
        if ord not in (None, 2):
            raise NotImplementedError("symbolic norm: only the Euclidean norm")
        sq = x * x
        if axis is None:
            return np.sum(sq).sqrt()
        s = np.sum(sq, axis=axis, keepdims=keepdims)
        out = np.empty(s.shape, dtype=object)
        for idx in np.ndindex(*s.shape):
            out[idx] = s[idx].sqrt() if isinstance(s[idx], SReal) else SReal(*lift(s[idx])).sqrt()
        return out

    def eigh(self, A):
        h = NPProxy.hooks.get("eigh")
        if h is None:
            raise NotImplementedError("eigh on symbolic input (no contract stub installed)")
        return h(A)


def _obj_full(shape, v):
    a = np.empty(shape, dtype=object)
    a.fill(v)
    return a


class NPProxy:
    """`np` stand-in.  Array constructors give object arrays so that later symbolic stores work."""
    hooks = {}
    linalg = _Linalg()
    pi = np.pi
    nan = np.nan
    inf = np.inf
    newaxis = np.newaxis
    ndarray = np.ndarray

    def __getattr__(self, k):
        return getattr(np, k)

    # -- constructors
    def zeros(self, shape, dtype=None):
        if dtype in (int, bool, np.int64, np.int32, np.bool_):
            return np.zeros(shape, dtype=dtype)
        return _obj_full(shape, SReal.const(0))

    def ones(self, shape, dtype=None):
        if dtype in (int, bool, np.int64, np.int32, np.bool_):
            return np.ones(shape, dtype=dtype)
        return _obj_full(shape, SReal.const(1))

    def empty(self, shape, dtype=None):
        if dtype in (int, bool, np.int64, np.int32, np.bool_):
            return np.empty(shape, dtype=dtype)
        return _obj_full(shape, SReal.const(0))

    def full(self, shape, fill_value, dtype=None):
        if isinstance(fill_value, float) and fill_value in (float("inf"), float("-inf")):
            return _obj_full(shape, Inf(1 if fill_value > 0 else -1))
        if isinstance(fill_value, (bool, np.bool_)) or dtype in (int, bool):
            return np.full(shape, fill_value, dtype=dtype)
        return _obj_full(shape, SReal(*lift(fill_value)) if not isinstance(fill_value, (SReal, Inf)) else fill_value)

    def eye(self, n, dtype=None):
        a = _obj_full((n, n), SReal.const(0))
        for i in range(n):
            a[i, i] = SReal.const(1)
        return a

    identity = eye

    def array(self, obj, dtype=None, copy=True):
        if dtype is float:
            dtype = None
        a = np.array(obj, dtype=dtype, copy=copy)
        return a

    def copy(self, a):
        return np.array(a, copy=True)

    # -- elementwise functions that numpy would send through C on objects
    def around(self, a, decimals=0, out=None):
        a = np.asarray(a)
        if a.dtype != object:
            return np.around(a, decimals=decimals, out=out)
        if decimals == 0:
            r = self._map(a, lambda v: v.rint() if isinstance(v, SReal) else round(v))
        else:
            r = a   # identity in exact arithmetic (stated cut: np.around(x, 9))
        if out is not None:
            out[...] = r
            return out
        return r

    round = around

    def floor(self, a):
        return self._apply(a, lambda v: v.floor(), np.floor)

    def ceil(self, a):
        return self._apply(a, lambda v: v.ceil(), np.ceil)

    def rint(self, a):
        return self._apply(a, lambda v: v.rint(), np.rint)

    def sqrt(self, a):
        return self._apply(a, lambda v: v.sqrt(), np.sqrt)

    def absolute(self, a):
        return self._apply(a, lambda v: abs(v), np.absolute)

    abs = absolute

    def remainder(self, a, b, out=None):
        a_ = np.asarray(a)
        if a_.dtype != object:
            return np.remainder(a, b, out=out)
        r = self._map(a_, lambda v: v % b)
        if out is not None:
            out[...] = r
            return out
        return r

    mod = remainder

    def isnan(self, a):
        a_ = np.asarray(a)
        if a_.dtype != object:
            return np.isnan(a)
        h = NPProxy.hooks.get("isnan")
        if h is not None:
            return h(a)
        return np.zeros(a_.shape, dtype=bool) if a_.shape else False

    def isclose(self, a, b, rtol=1e-05, atol=1e-08, equal_nan=False):
        a_, b_ = np.asarray(a), np.asarray(b)
        if a_.dtype != object and b_.dtype != object:
            return np.isclose(a, b, rtol=rtol, atol=atol, equal_nan=equal_nan)
        a_, b_ = np.broadcast_arrays(np.asarray(a, dtype=object), np.asarray(b, dtype=object))
        out = np.empty(a_.shape, dtype=object)
        for idx in np.ndindex(*a_.shape):
            x, y = a_[idx], b_[idx]
            x = x if isinstance(x, SReal) else SReal(*lift(x))
            y = y if isinstance(y, SReal) else SReal(*lift(y))
            out[idx] = abs(x - y) <= atol + rtol * abs(y)
        return out if a_.shape else out[()]

    def allclose(self, a, b, rtol=1e-05, atol=1e-08, equal_nan=False):
        r = self.isclose(a, b, rtol=rtol, atol=atol)
        return all(bool(v) for v in np.ravel(np.asarray(r, dtype=object)))

    def sign(self, a):
        return self._apply(a, lambda v: SReal.const(1) if bool(v > 0) else (SReal.const(-1) if bool(v < 0) else SReal.const(0)), np.sign)

    def isfinite(self, a):
        a_ = np.asarray(a)
        if a_.dtype != object:
            return np.isfinite(a)
        r = np.zeros(a_.shape, dtype=bool)
        for idx in np.ndindex(*a_.shape):
            v = a_[idx]
            r[idx] = not isinstance(v, Inf) and not (isinstance(v, float) and (v != v or v in (float("inf"), float("-inf"))))
        return r if a_.shape else bool(r)

    def isinf(self, a):
        a_ = np.asarray(a)
        if a_.dtype != object:
            return np.isinf(a)
        r = np.zeros(a_.shape, dtype=bool)
        for idx in np.ndindex(*a_.shape):
            r[idx] = isinstance(a_[idx], Inf)
        return r if a_.shape else bool(r)

    def cos(self, a):
        return self._uf("cos", a, np.cos)

    def sin(self, a):
        return self._uf("sin", a, np.sin)

    def arctan2(self, a, b):
        h = NPProxy.hooks.get("arctan2")
        if h is None or (np.asarray(a).dtype != object and np.asarray(b).dtype != object):
            return np.arctan2(a, b)
        return h(a, b)

    def _uf(self, name, a, real):
        a_ = np.asarray(a)
        if a_.dtype != object:
            return real(a)
        h = NPProxy.hooks.get(name)
        if h is None:
            raise NotImplementedError(f"{name} on symbolic input (no contract stub installed)")
        return self._map(a_, h)

    def _map(self, a, f):
        out = np.empty(a.shape, dtype=object)
        for idx in np.ndindex(*a.shape):
            out[idx] = f(a[idx])
        return out if a.shape else out[()]

    def _apply(self, a, f, real):
        if isinstance(a, SReal):
            return f(a)
        a_ = np.asarray(a)
        if a_.dtype != object:
            return real(a)
        return self._map(a_, lambda v: f(v) if isinstance(v, SReal) else f(SReal(*lift(v))))

    # -- sorting through symbolic comparisons
    def argsort(self, a, axis=-1, kind=None):
        a_ = np.asarray(a)
        if a_.dtype != object:
            return np.argsort(a, axis=axis, kind=kind)
        if a_.ndim != 1:
            raise NotImplementedError
        import functools
        idx = list(range(len(a_)))
        idx.sort(key=functools.cmp_to_key(lambda i, j: -1 if bool(a_[i] < a_[j]) else (1 if bool(a_[j] < a_[i]) else 0)))
        return np.array(idx, dtype=int)

    def lexsort(self, keys, axis=-1):
        ks = [np.asarray(k) for k in keys]
        if all(k.dtype != object for k in ks):
            return np.lexsort(keys, axis=axis)
        h = NPProxy.hooks.get("lexsort")
        if h is not None:
            return h(keys)
        import functools
        n = len(ks[0])

        def cmp(i, j):
            for k in reversed(ks):
                if bool(k[i] < k[j]):
                    return -1
                if bool(k[j] < k[i]):
                    return 1
            return 0
        idx = list(range(n))
        idx.sort(key=functools.cmp_to_key(cmp))
        return np.array(idx, dtype=int)

    def clip(self, a, a_min=None, a_max=None, out=None):
        """fork-free: the clipped value is a fresh symbol defined by  c = ite(v < lo, lo, ite(v > hi, hi, v))"""
        a_ = np.asarray(a)
        if a_.dtype != object:
            return np.clip(a, a_min, a_max, out=out)
        import z3
        e = eng()
        lo = None if a_min is None else (a_min if isinstance(a_min, (SReal, Inf)) else SReal(*lift(a_min)))
        hi = None if a_max is None else (a_max if isinstance(a_max, (SReal, Inf)) else SReal(*lift(a_max)))
        r = np.empty(a_.shape, dtype=object)
        for idx in np.ndindex(*a_.shape):
            v = a_[idx]
            if isinstance(v, Inf):
                v = (hi if v.s > 0 else lo) if (hi if v.s > 0 else lo) is not None else v
                r[idx] = v
                continue
            if not isinstance(v, SReal):
                v = SReal(*lift(v))
            below = z3.BoolVal(False) if lo is None or isinstance(lo, Inf) else v.rel(lambda x, y: x < y, lo)
            above = z3.BoolVal(False) if hi is None or isinstance(hi, Inf) else v.rel(lambda x, y: x > y, hi)
            below, above = z3.simplify(below), z3.simplify(above)
            if z3.is_true(below):
                r[idx] = lo
            elif z3.is_false(below) and z3.is_true(above):
                r[idx] = hi
            elif z3.is_false(below) and z3.is_false(above):
                r[idx] = v
            elif v.d is not ONE or (lo is not None and not isinstance(lo, Inf) and lo.d is not ONE) or (hi is not None and not isinstance(hi, Inf) and hi.d is not ONE):
                r[idx] = lo if e.branch(below) else (hi if e.branch(above) else v)
            else:
                c = SReal.sym(f"clip!{next(e.fresh)}")
                e.assume(c.z3() == z3.If(below, lo.z3() if lo is not None and not isinstance(lo, Inf) else v.z3(),
                                         z3.If(above, hi.z3() if hi is not None and not isinstance(hi, Inf) else v.z3(), v.z3())))
                r[idx] = c
        if out is not None:
            out[...] = r
            return out
        return r


@contextlib.contextmanager
def patched(target, **names):
    """temporarily replace names (np, Atoms, ...) in the namespace of the module (or class) under test"""
    missing = object()
    old = {k: target.__dict__.get(k, missing) for k in names}
    for k, v in names.items():
        setattr(target, k, v)
    try:
        yield
    finally:
        for k, v in old.items():
            if v is missing:
                try:
                    delattr(target, k)
                except AttributeError:
                    pass
            else:
                setattr(target, k, v)
