"""Symbolic scalar values for Engine A.

SReal: a rational function n/d of multivariate polynomials with Fraction coefficients
(fast dict representation; sympy is used only for gcd-cancellation after a division
by a non-constant and for pulling perfect squares out of square roots).  Conversion to
z3 happens only at branch / assertion time and never produces a z3 division.
SBool: a z3 Bool whose __bool__ is the fork point.
"""
import fractions
import itertools
import math

import numpy as np
import z3

F = fractions.Fraction


class _Ctx:
    eng = None  # the Engine of the path being executed


CTX = _Ctx()


def eng():
    if CTX.eng is None:
        raise RuntimeError("symbolic value used outside an exploration")
    return CTX.eng


# ------------------------------------------------------------------------------ polynomials
def _mono_mul(a, b):
    if not a:
        return b
    if not b:
        return a
    d = dict(a)
    for v, p in b:
        d[v] = d.get(v, 0) + p
    return tuple(sorted(d.items()))


class P:
    """Immutable polynomial: dict monomial -> Fraction; monomial = tuple of (var, power)."""
    __slots__ = ("t", "_h")

    def __init__(self, t):
        self.t = t
        self._h = None

    @staticmethod
    def const(c):
        c = F(c)
        return P({(): c}) if c != 0 else P({})

    @staticmethod
    def var(name):
        return P({((name, 1),): F(1)})

    def is_const(self):
        return not self.t or (len(self.t) == 1 and () in self.t)

    def cval(self):
        return self.t.get((), F(0))

    def is_zero(self):
        return not self.t

    def add(self, o, sign=1):
        if not o.t:
            return self
        d = dict(self.t)
        for m, c in o.t.items():
            v = d.get(m, 0) + sign * c
            if v == 0:
                d.pop(m, None)
            else:
                d[m] = v
        return P(d)

    def scale(self, c):
        if c == 0:
            return P({})
        if c == 1:
            return self
        return P({m: v * c for m, v in self.t.items()})

    def mul(self, o):
        if self.is_const():
            return o.scale(self.cval())
        if o.is_const():
            return self.scale(o.cval())
        d = {}
        for m1, c1 in self.t.items():
            for m2, c2 in o.t.items():
                m = _mono_mul(m1, m2)
                v = d.get(m, 0) + c1 * c2
                if v == 0:
                    d.pop(m, None)
                else:
                    d[m] = v
        return P(d)

    def key(self):
        if self._h is None:
            self._h = tuple(sorted(self.t.items()))
        return self._h

    def __eq__(self, o):
        return self.t == o.t

    def __hash__(self):
        return hash(self.key())

    def vars(self):
        return {v for m in self.t for v, _ in m}

    def degree(self):
        return max((sum(p for _, p in m) for m in self.t), default=0)

    def evalf(self, env):
        """env: var -> Fraction or float"""
        tot = 0
        for m, c in self.t.items():
            term = c
            for v, p in m:
                term = term * env[v] ** p
            tot = tot + term
        return tot

    def __repr__(self):
        if not self.t:
            return "0"
        out = []
        for m, c in sorted(self.t.items()):
            s = "*".join(v if p == 1 else f"{v}^{p}" for v, p in m)
            out.append(f"{c}" + ("*" + s if s else ""))
        return " + ".join(out)


ONE = P.const(1)
ZERO = P.const(0)

_Z3VARS = {}       # name -> z3 term (Real by default; ToReal(Int) for integer-valued symbols)
_Z3CACHE = {}


def z3var(name):
    t = _Z3VARS.get(name)
    if t is None:
        t = _Z3VARS[name] = z3.Real(name)
    return t


INT_NAMES = set()


def declare_int(name):
    """Declare `name` as an integer-valued symbol; returns the z3 Int."""
    INT_NAMES.add(name)
    i = z3.Int(name)
    _Z3VARS[name] = z3.ToReal(i)
    return i


def p_to_z3(p):
    k = p.key()
    r = _Z3CACHE.get(k)
    if r is not None:
        return r
    terms = []
    for m, c in p.t.items():
        fs = []
        for v, pw in m:
            fs.extend([z3var(v)] * pw)
        if not fs:
            terms.append(z3.RealVal(str(c)))
        else:
            prod = fs[0] if len(fs) == 1 else z3.Product(*fs)
            terms.append(prod if c == 1 else z3.RealVal(str(c)) * prod)
    r = z3.RealVal(0) if not terms else (terms[0] if len(terms) == 1 else z3.Sum(*terms))
    if len(_Z3CACHE) < 200000:
        _Z3CACHE[k] = r
    return r


# sympy bridge (rare paths only)
def _p_to_sympy(p):
    import sympy as sp
    e = sp.Integer(0)
    for m, c in p.t.items():
        term = sp.Rational(c.numerator, c.denominator)
        for v, pw in m:
            term = term * sp.Symbol(v, real=True) ** pw
        e += term
    return e


def _sympy_to_p(e):
    import sympy as sp
    e = sp.expand(e)
    if e == 0:
        return ZERO
    syms = sorted(e.free_symbols, key=lambda s: s.name)
    if not syms:
        return P.const(F(int(sp.numer(e)), int(sp.denom(e))))
    poly = sp.Poly(e, *syms)
    d = {}
    for mon, c in poly.terms():
        m = tuple(sorted((s.name, int(pw)) for s, pw in zip(syms, mon) if pw))
        c = sp.Rational(c)
        d[m] = F(int(c.p), int(c.q))
    return P(d)


def _cancel(n, d):
    import sympy as sp
    nn, dd = sp.fraction(sp.cancel(_p_to_sympy(n) / _p_to_sympy(d)))
    return _sympy_to_p(nn), _sympy_to_p(dd)


# ------------------------------------------------------------------------------ booleans
class SBool:
    __slots__ = ("e",)

    def __init__(self, e):
        self.e = e

    def __bool__(self):
        return eng().branch(self.e)

    @staticmethod
    def _lift(o):
        if isinstance(o, SBool):
            return o.e
        return z3.BoolVal(bool(o))

    def __and__(self, o):
        return SBool(z3.And(self.e, self._lift(o)))

    __rand__ = __and__

    def __or__(self, o):
        return SBool(z3.Or(self.e, self._lift(o)))

    __ror__ = __or__

    def __xor__(self, o):
        return SBool(z3.Xor(self.e, self._lift(o)))

    def __invert__(self):
        return SBool(z3.Not(self.e))

    def __repr__(self):
        return f"SBool({self.e})"


def zbool(b):
    return b.e if isinstance(b, SBool) else z3.BoolVal(bool(b))


# ------------------------------------------------------------------------------ reals
def lift(x):
    """-> (n, d) polynomials or raise TypeError"""
    if isinstance(x, SReal):
        return x.n, x.d
    if isinstance(x, (bool, np.bool_)):
        return P.const(int(x)), ONE
    if isinstance(x, (int, np.integer)):
        return P.const(int(x)), ONE
    if isinstance(x, F):
        return P.const(x), ONE
    if isinstance(x, (float, np.floating)):
        xf = float(x)
        if xf != xf or xf in (float("inf"), float("-inf")):
            raise TypeError("non-finite float in symbolic arithmetic")
        return P.const(float_to_fraction(xf)), ONE
    raise TypeError(type(x))


def float_to_fraction(xf):
    """float constants are read as the simple fraction they were written as (2/3, 0.65, 1.1, ...) when they are within
    rounding distance of one with denominator <= 1000; otherwise exactly (binary expansion)"""
    fr = F(xf)
    if fr.denominator <= 1000:
        return fr
    near = fr.limit_denominator(1000)
    if abs(float(near) - xf) <= 4e-16 * max(1.0, abs(xf)):
        return near
    return fr


class SReal:
    __slots__ = ("n", "d", "isint")

    def __init__(self, n, d=ONE, isint=False):
        if d is not ONE and d.is_const():
            n = n.scale(1 / d.cval())
            d = ONE
        self.n, self.d, self.isint = n, d, isint

    # -- constructors
    @staticmethod
    def sym(name, isint=False):
        if isint:
            declare_int(name)
        return SReal(P.var(name), ONE, isint)

    @staticmethod
    def const(c):
        return SReal(P.const(c))

    def is_const(self):
        return self.d is ONE and self.n.is_const()

    def cval(self):
        return self.n.cval()

    # -- arithmetic
    def _bin(self, o, f):
        try:
            on, od = lift(o)
        except TypeError:
            return NotImplemented
        return f(self.n, self.d, on, od, self.isint and _isint(o))

    def __add__(self, o):
        if isinstance(o, Inf):
            return o
        return self._bin(o, lambda n, d, on, od, ii: SReal(n.add(on), ONE, ii) if d is ONE and od is ONE
                         else _mk(n.mul(od).add(on.mul(d)), d.mul(od)))

    __radd__ = __add__

    def __sub__(self, o):
        if isinstance(o, Inf):
            return -o
        return self._bin(o, lambda n, d, on, od, ii: SReal(n.add(on, -1), ONE, ii) if d is ONE and od is ONE
                         else _mk(n.mul(od).add(on.mul(d), -1), d.mul(od)))

    def __rsub__(self, o):
        if isinstance(o, Inf):
            return o
        return self._bin(o, lambda n, d, on, od, ii: SReal(on.add(n, -1), ONE, ii) if d is ONE and od is ONE
                         else _mk(on.mul(d).add(n.mul(od), -1), d.mul(od)))

    def __mul__(self, o):
        if isinstance(o, Inf):
            return o * self
        return self._bin(o, lambda n, d, on, od, ii: SReal(_red(n.mul(on)), ONE, ii) if d is ONE and od is ONE
                         else _mk(_red(n.mul(on)), _red(d.mul(od))))

    __rmul__ = __mul__

    def __truediv__(self, o):
        if isinstance(o, Inf):
            return SReal.const(0)
        try:
            on, od = lift(o)
        except TypeError:
            return NotImplemented
        return _div(self.n, self.d, on, od)

    def __rtruediv__(self, o):
        try:
            on, od = lift(o)
        except TypeError:
            return NotImplemented
        return _div(on, od, self.n, self.d)

    def __neg__(self):
        return SReal(self.n.scale(-1), self.d, self.isint)

    def __pos__(self):
        return self

    def __pow__(self, k):
        if isinstance(k, SReal) and k.is_const():
            k = k.cval()
        if isinstance(k, (float, np.floating)) and float(k) == 0.5:
            return self.sqrt()
        if isinstance(k, F) and k.denominator != 1:
            if k == F(1, 2):
                return self.sqrt()
            raise NotImplementedError("fractional power")
        k = int(k)
        if k != k or k < 0:
            if k < 0:
                return SReal.const(1) / (self ** (-k))
        r = SReal.const(1)
        for _ in range(k):
            r = r * self
        return r

    # -- comparisons
    def _diff(self, o):
        on, od = lift(o)
        if self.d is ONE and od is ONE:
            return self.n.add(on, -1), ONE
        return self.n.mul(od).add(on.mul(self.d), -1), self.d.mul(od)

    def _cmp(self, o, op):
        if isinstance(o, Inf):
            return op(0, o.s)
        try:
            n, d = self._diff(o)
        except TypeError:
            return NotImplemented
        if d is not ONE:
            n = n.mul(d)      # sign(n/d) = sign(n*d); d != 0 was established when it was formed
        if n.is_const():
            return bool(op(n.cval(), 0))
        return SBool(op(p_to_z3(n), 0))

    def __lt__(self, o):
        return self._cmp(o, lambda a, b: a < b)

    def __le__(self, o):
        return self._cmp(o, lambda a, b: a <= b)

    def __gt__(self, o):
        return self._cmp(o, lambda a, b: a > b)

    def __ge__(self, o):
        return self._cmp(o, lambda a, b: a >= b)

    def __eq__(self, o):
        if o is None:
            return False
        return self._cmp(o, lambda a, b: a == b)

    def __ne__(self, o):
        if o is None:
            return True
        return self._cmp(o, lambda a, b: a != b)

    def __hash__(self):
        if self.is_const():
            return hash(self.cval())
        if self.isint:
            return hash(int(self))
        raise TypeError("unhashable symbolic real")

    def __bool__(self):
        r = self != 0
        return bool(r)

    # -- formulas without forking
    def z3(self):
        """z3 term; only for polynomial values (no denominator)."""
        if self.d is not ONE:
            raise ValueError("rational function has no direct z3 term; use rel()")
        return p_to_z3(self.n)

    def rel(self, op, o=0):
        """z3 formula  self <op> o  (cross-multiplied)"""
        r = self._cmp(o, op)
        return zbool(r)

    def eqz(self, o=0):
        return self.rel(lambda a, b: a == b, o)

    # -- numeric functions
    def __abs__(self):
        return self if bool(self >= 0) else -self

    def conjugate(self):
        return self

    conj = conjugate

    @property
    def real(self):
        return self

    @property
    def imag(self):
        return SReal.const(0)

    def sqrt(self):
        return _sqrt(self)

    def _floor_sym(self):
        if self.is_const():
            return SReal.const(math.floor(self.cval()))
        if self.isint:
            return self
        e = eng()
        if self.d is ONE:
            # (a) v = w - fl(w) + integer terms: already reduced, floor is the integer part that is syntactically visible
            ints = {}
            rest = {}
            for m, c in self.n.t.items():
                if len(m) == 1 and m[0][1] == 1 and m[0][0] in e.floor_args and c.denominator == 1:
                    ints[m[0][0]] = c
                else:
                    rest[m] = c
            if ints:
                restp = P(rest)
                for name, c in ints.items():
                    if c == -1 and e.floor_args[name] == restp.add(P({((k, 1),): v for k, v in ints.items() if k != name})):
                        # self = arg - floor(arg)  in [0,1)
                        return SReal.const(0)
                cst = restp.cval() if restp.is_const() else None
            # (b) same argument seen before on this path: same floor symbol
            hit = e.floor_memo.get(self.n.key())
            if hit is not None:
                return hit
        if getattr(e, "logic", "lira") == "nra":
            # polynomial-real mode: no integer symbols; the floor is concretised by enumerating candidates under
            # real-only constraints (forks over the feasible values)
            for it in range(201):
                kk = (it + 1) // 2 if it % 2 else -(it // 2)
                if e.branch(z3.And(self.rel(lambda a, b: a >= b, kk), self.rel(lambda a, b: a < b, kk + 1))):
                    r = SReal.const(kk)
                    if self.d is ONE:
                        e.floor_memo[self.n.key()] = r
                    return r
            raise OverflowError("floor out of the enumerated range")
        name = f"fl!{next(e.fresh)}"
        k = SReal.sym(name, isint=True)
        e.assume(z3.And(self.rel(lambda a, b: a >= b, k), self.rel(lambda a, b: a < b, k + 1)))
        if self.d is ONE:
            e.floor_args[name] = self.n
            e.floor_memo[self.n.key()] = k
        return k

    def floor(self):
        return self._floor_sym()

    __floor__ = floor

    def ceil(self):
        return -((-self)._floor_sym())

    __ceil__ = ceil

    def rint(self):
        return (self + F(1, 2))._floor_sym()    # ties up; IEEE ties-to-even differs only exactly on ties

    def __round__(self, nd=None):
        if nd is None:
            return int(self.rint())
        return self   # rounding to decimals is the identity in exact arithmetic (stated cut)

    def round(self, nd=0):
        return self if nd else self.rint()

    def __mod__(self, o):
        on, od = lift(o)
        if not (od is ONE and on.is_const() and on.cval() > 0):
            raise NotImplementedError("symbolic modulus")
        m = on.cval()
        return self - (self / m)._floor_sym() * m

    def __rmod__(self, o):
        raise NotImplementedError("symbolic modulus")

    def __floordiv__(self, o):
        return (self / o)._floor_sym()

    def __int__(self):
        if self.is_const():
            c = self.cval()
            return int(c)
        if not self.isint:
            # C-style truncation towards zero
            fl = self._floor_sym() if bool(self >= 0) else self.ceil()
            return eng().concretize_int(fl)
        return eng().concretize_int(self)

    __index__ = __int__
    __trunc__ = __int__

    def __float__(self):
        if self.is_const():
            return float(self.cval())
        raise TypeError("symbolic real realised as float (C boundary reached)")

    def __repr__(self):
        return f"SReal({self.n!r})" if self.d is ONE else f"SReal(({self.n!r})/({self.d!r}))"


def _red(p):
    """reduce powers of square-root symbols: s^2 -> radicand (s was introduced with s >= 0, s^2 = radicand)"""
    e = CTX.eng
    if e is None or not e.sqrt_defs or p.is_const():
        return p
    defs = e.sqrt_defs
    again = True
    while again:
        again = False
        for m in p.t:
            hit = next(((v, pw) for v, pw in m if pw >= 2 and v in defs), None)
            if hit is not None:
                again = True
                break
        if again:
            out = ZERO
            for m, c in p.t.items():
                term = P({m: c})
                for v, pw in m:
                    if pw >= 2 and v in defs:
                        rest = tuple((a, b) for a, b in m if a != v)
                        if pw % 2:
                            rest = tuple(sorted(rest + ((v, 1),)))
                        term = P({rest: c})
                        for _ in range(pw // 2):
                            term = term.mul(defs[v])
                        break
                out = out.add(term)
            p = out
    return p


def _isint(o):
    if isinstance(o, SReal):
        return o.isint or (o.is_const() and o.cval().denominator == 1)
    if isinstance(o, (int, np.integer)) and not isinstance(o, (bool, np.bool_)):
        return True
    if isinstance(o, F):
        return o.denominator == 1
    return False


def _mk(n, d):
    if d.is_const():
        return SReal(n.scale(1 / d.cval()))
    if n.is_zero():
        return SReal(ZERO)
    n, d = _cancel(n, d)
    return SReal(n, d if not d.is_const() else P.const(d.cval()))


def _div(n1, d1, n2, d2):
    # (n1/d1) / (n2/d2); requires n2 != 0
    if n2.is_const():
        c = n2.cval()
        if c == 0:
            raise ZeroDivisionError("division by zero")
        if d1 is ONE and d2 is ONE:
            return SReal(n1.scale(1 / c))
        return _mk(n1.mul(d2).scale(1 / c), d1)
    if not eng().branch(p_to_z3(n2) != 0):
        raise ZeroDivisionError("division by symbolic zero")
    return _mk(n1.mul(d2), d1.mul(n2))


def _pull_squares(c):
    """c Fraction >= 0 -> (outside, radicand) with sqrt(c) = outside*sqrt(radicand), radicand squarefree integer ratio"""
    import sympy as sp
    out, rad = F(1), F(1)
    for p, k in sp.factorint(c.numerator).items():
        out *= F(int(p)) ** (k // 2)
        rad *= F(int(p)) ** (k % 2)
    for p, k in sp.factorint(c.denominator).items():
        out /= F(int(p)) ** ((k + 1) // 2)
        rad *= F(int(p)) ** (k % 2)
    return out, rad


def _sqrt(s):
    import sympy as sp
    if s.is_const():
        c = s.cval()
        if c < 0:
            raise ValueError("sqrt of a negative number")
        out, rad = _pull_squares(c)
        if rad == 1:
            return SReal.const(out)
        # algebraic constant: fresh symbol r >= 0, r^2 = rad (shared by name so equal radicands give equal terms)
        name = f"sqrt_{rad.numerator}_{rad.denominator}"
        r = SReal.sym(name)
        eng().assume(z3.And(r.z3() >= 0, r.z3() * r.z3() == z3.RealVal(str(rad))), tag=name)
        eng().sqrt_defs[name] = P.const(rad)
        return r * out
    e = eng()
    if not e.branch(s.rel(lambda a, b: a >= b)):
        raise ValueError("sqrt of a negative symbolic value")
    # sqrt(n/d) = sqrt(n*d)/|d|
    prod = s.n if s.d is ONE else s.n.mul(s.d)
    c, facs = sp.factor_list(_p_to_sympy(prod))
    c = F(int(sp.Rational(c).p), int(sp.Rational(c).q))
    sign = 1
    if c < 0:
        c, sign = -c, -1
    out, rad_c = _pull_squares(c)
    res = SReal.const(out)
    rad = P.const(rad_c * sign)
    for f, k in facs:
        fp = _sympy_to_p(f)
        if k // 2:
            a = abs(SReal(fp))
            for _ in range(k // 2):
                res = res * a
        if k % 2:
            rad = rad.mul(fp)
    if not (rad.is_const() and rad.cval() == 1):
        if rad.is_const():
            res = res * _sqrt(SReal(rad))
        else:
            key = ("sqrt", rad.key())
            name = e.sqrt_names.get(key)
            if name is None:
                name = e.sqrt_names[key] = f"sq!{next(e.fresh)}"
                r = SReal.sym(name)
                e.assume(z3.And(r.z3() >= 0, r.z3() * r.z3() == p_to_z3(rad)), tag=name)
                e.sqrt_defs[name] = rad
            res = res * SReal.sym(name)
    if s.d is not ONE:
        res = res / abs(SReal(s.d))
    return res


# ------------------------------------------------------------------------------ +inf sentinel
class Inf:
    """+/- infinity with the IEEE rules the code under test relies on (inf - r, clip, comparisons)."""
    __slots__ = ("s",)

    def __init__(self, s=1):
        self.s = s

    def __neg__(self):
        return Inf(-self.s)

    def __add__(self, o):
        return self

    __radd__ = __add__

    def __sub__(self, o):
        return self

    def __rsub__(self, o):
        return Inf(-self.s)

    def __mul__(self, o):
        sg = 1 if bool(o > 0) else -1
        return Inf(self.s * sg)

    __rmul__ = __mul__

    def _c(self, o, op):
        if isinstance(o, Inf):
            return op(self.s, o.s)
        return op(self.s, 0)

    def __lt__(self, o):
        return self._c(o, lambda a, b: a < b)

    def __le__(self, o):
        return self._c(o, lambda a, b: a <= b)

    def __gt__(self, o):
        return self._c(o, lambda a, b: a > b)

    def __ge__(self, o):
        return self._c(o, lambda a, b: a >= b)

    def __eq__(self, o):
        return isinstance(o, Inf) and o.s == self.s or (isinstance(o, float) and o == self.s * float("inf"))

    def __ne__(self, o):
        return not self.__eq__(o)

    def __hash__(self):
        return hash(self.s * float("inf"))

    def __float__(self):
        return self.s * float("inf")

    def __repr__(self):
        return "Inf" if self.s > 0 else "-Inf"


# ------------------------------------------------------------------------------ array helpers
def sym_array(name, shape, isint=False):
    a = np.empty(shape, dtype=object)
    for idx in np.ndindex(*shape):
        a[idx] = SReal.sym(name + "_" + "_".join(map(str, idx)), isint=isint)
    return a


def const_array(vals):
    vals = np.asarray(vals, dtype=object)
    a = np.empty(vals.shape, dtype=object)
    for idx in np.ndindex(*vals.shape):
        v = vals[idx]
        a[idx] = v if isinstance(v, (SReal, Inf)) else SReal(*lift(v))
    return a


def to_obj(a):
    """object array of SReal from anything array-like (floats are taken exactly)."""
    a = np.asarray(a)
    if a.dtype == object:
        out = np.empty(a.shape, dtype=object)
        for idx in np.ndindex(*a.shape):
            v = a[idx]
            if isinstance(v, (SReal, Inf, SBool)):
                out[idx] = v
            elif isinstance(v, float) and v in (float("inf"), float("-inf")):
                out[idx] = Inf(1 if v > 0 else -1)
            else:
                out[idx] = SReal(*lift(v))
        return out
    if a.dtype == bool:
        return a
    out = np.empty(a.shape, dtype=object)
    for idx in np.ndindex(*a.shape):
        v = a[idx]
        fv = float(v)
        out[idx] = Inf(1 if fv > 0 else -1) if fv in (float("inf"), float("-inf")) else SReal(*lift(v))
    return out


def value_of(x, env):
    """evaluate a symbolic/concrete scalar under env (var -> Fraction|float)"""
    if isinstance(x, SReal):
        n = x.n.evalf(env)
        return n if x.d is ONE else n / x.d.evalf(env)
    if isinstance(x, Inf):
        return float(x)
    return x
