"""Stand-ins for third-party objects the code under test touches (each is part of the claim)."""
import numpy as np

from .values import SReal, SBool, Inf, to_obj, lift, eng, F
from .npproxy import NPProxy, inv3, solve3

_NP = NPProxy()


class StubAtoms:
    """Plain container with the subset of the ase.Atoms interface MatID uses, over symbolic arrays.
    Every mutating call is recorded (input-immutability monitor)."""

    def __init__(self, symbols=None, positions=None, numbers=None, cell=None, pbc=None, scaled_positions=None,
                 masses=None, **kw):
        if numbers is None:
            numbers = symbols
        self.cell = to_obj(np.zeros((3, 3)) if cell is None else cell).reshape(3, 3).copy()
        if positions is None and scaled_positions is not None:
            positions = np.dot(to_obj(scaled_positions), self.cell)
        if positions is None:
            positions = np.zeros((0, 3))
        self.positions = to_obj(positions).reshape(-1, 3).copy()
        self.numbers = np.array(numbers if numbers is not None else [], dtype=int)
        if isinstance(pbc, (bool, np.bool_)) or pbc is None:
            pbc = [bool(pbc)] * 3
        self.pbc = np.array(pbc, dtype=bool)
        self.masses = None if masses is None else to_obj(masses)
        self.mutations = []
        self.extra = {}

    # -- getters
    def get_positions(self, wrap=False, **kw):
        if wrap and self.pbc.any():
            f = self.get_scaled_positions(wrap=True)
            return np.dot(f, self.cell)
        return self.positions.copy()

    def get_cell(self, complete=False):
        return self.cell.copy()

    def get_pbc(self):
        return self.pbc.copy()

    def get_atomic_numbers(self):
        return self.numbers.copy()

    def get_chemical_symbols(self):
        from ase.data import chemical_symbols
        return [chemical_symbols[int(z)] for z in self.numbers]

    def get_masses(self):
        if self.masses is not None:
            return self.masses.copy()
        from ase.data import atomic_masses
        return to_obj(atomic_masses[self.numbers])

    def _complete_cell(self):
        """ase.Cell.scaled_positions solves against cell.complete(): a rank-deficient (constant) cell is completed first"""
        from .npproxy import det3
        try:
            if all(v.is_const() for v in np.ravel(self.cell)) and det3(self.cell).cval() == 0:
                import ase.geometry
                from .values import const_array
                return const_array(ase.geometry.complete_cell(np.array([[float(v.cval()) for v in row] for row in self.cell], dtype=float)))
        except Exception:
            pass
        return self.cell

    def get_scaled_positions(self, wrap=True):
        f = solve3(self._complete_cell().T, self.positions.T).T
        if wrap:
            for i in range(3):
                if self.pbc[i]:
                    for k in range(len(f)):
                        f[k, i] = f[k, i] % 1
        return f

    def get_volume(self):
        from .npproxy import det3
        return abs(det3(self.cell))

    def __len__(self):
        return len(self.positions)

    # -- mutators
    def set_positions(self, p):
        self.mutations.append("set_positions")
        self.positions = to_obj(p).reshape(-1, 3).copy()

    def set_scaled_positions(self, s):
        self.mutations.append("set_scaled_positions")
        self.positions = np.dot(to_obj(s), self.cell)

    def set_cell(self, cell, scale_atoms=False):
        self.mutations.append("set_cell")
        if scale_atoms:
            raise NotImplementedError("scale_atoms")
        self.cell = to_obj(cell).reshape(3, 3).copy()

    def set_pbc(self, pbc):
        self.mutations.append("set_pbc")
        if isinstance(pbc, (bool, np.bool_)):
            pbc = [bool(pbc)] * 3
        self.pbc = np.array(pbc, dtype=bool)

    def translate(self, t):
        self.mutations.append("translate")
        self.positions = self.positions + to_obj(t)

    def wrap(self, **kw):
        self.mutations.append("wrap")
        if not self.pbc.any():
            return
        f = self.get_scaled_positions(wrap=True)
        self.positions = np.dot(f, self.cell)

    def center(self, vacuum=None, axis=(0, 1, 2), about=None):
        """ase.Atoms.center without vacuum: move the centre of the bounding box (in scaled
        coordinates) to the cell centre."""
        self.mutations.append("center")
        if vacuum is not None or about is not None:
            raise NotImplementedError
        f = self.get_scaled_positions(wrap=False)
        for i in axis:
            col = f[:, i]
            lo, hi = col[0], col[0]
            for v in col[1:]:
                if bool(v < lo):
                    lo = v
                if bool(v > hi):
                    hi = v
            shift = F(1, 2) - (lo + hi) / 2
            for k in range(len(f)):
                f[k, i] = f[k, i] + shift
        self.positions = np.dot(f, self.cell)

    # -- constructors of new systems
    __hash__ = object.__hash__

    def __eq__(self, other):
        """ase.Atoms.__eq__: same number of atoms, positions, numbers, cell and pbc"""
        if not isinstance(other, StubAtoms):
            return False
        if len(self) != len(other) or list(self.numbers) != list(other.numbers) or list(self.pbc) != list(other.pbc):
            return False
        return all(x is y or bool(x == y) for a, b in ((self.positions, other.positions), (self.cell, other.cell)) for x, y in zip(np.ravel(a), np.ravel(b)))

    def __ne__(self, other):
        return not self.__eq__(other)

    def copy(self):
        a = StubAtoms(numbers=self.numbers.copy(), positions=self.positions.copy(), cell=self.cell.copy(), pbc=self.pbc.copy(),
                      masses=None if self.masses is None else self.masses.copy())
        a.extra = dict(self.extra)
        return a

    def repeat(self, rep):
        if isinstance(rep, int):
            rep = (rep, rep, rep)
        rep = [int(r) for r in rep]
        pos, nums = [], []
        # ase order: i0 slowest, atoms fastest
        for i0 in range(rep[0]):
            for i1 in range(rep[1]):
                for i2 in range(rep[2]):
                    shift = i0 * self.cell[0] + i1 * self.cell[1] + i2 * self.cell[2]
                    for k in range(len(self)):
                        pos.append(self.positions[k] + shift)
                        nums.append(self.numbers[k])
        cell = np.array([self.cell[i] * rep[i] for i in range(3)], dtype=object)
        return StubAtoms(numbers=nums, positions=np.array(pos, dtype=object).reshape(-1, 3), cell=cell, pbc=self.pbc.copy())

    def __getitem__(self, idx):
        if isinstance(idx, (int, np.integer)):
            idx = [int(idx)]
        idx = [int(i) for i in idx]
        return StubAtoms(numbers=self.numbers[idx], positions=self.positions[idx], cell=self.cell.copy(), pbc=self.pbc.copy(),
                         masses=None if self.masses is None else self.masses[idx])

    # -- concretisation for witness replay
    def to_ase(self, env):
        from ase import Atoms
        from .values import value_of
        f = lambda a: np.array([[float(value_of(v, env)) for v in row] for row in a], dtype=float)
        return Atoms(numbers=self.numbers, positions=f(self.positions).reshape(-1, 3), cell=f(self.cell), pbc=self.pbc)


def concrete(a, env):
    """float array from a symbolic array under env"""
    from .values import value_of
    a = np.asarray(a)
    if a.dtype != object:
        return np.array(a, dtype=float)
    out = np.empty(a.shape, dtype=float)
    for idx in np.ndindex(*a.shape):
        out[idx] = float(value_of(a[idx], env))
    return out if a.shape else float(out)
