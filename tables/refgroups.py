"""Reference data, independent of MatID's tables: spglib's Hall-symbol database."""
import functools
from fractions import Fraction as F

import numpy as np
import spglib


@functools.lru_cache(None)
def hall_numbers():
    first, all_ = {}, {}
    for h in range(1, 531):
        t = spglib.get_spacegroup_type(h)
        first.setdefault(t.number, h)
        all_.setdefault(t.number, []).append(h)
    return first, all_


def std_hall(sg):
    return hall_numbers()[0][sg]


def q(x, max_den=48, tol=5e-9):
    """Rationalise a table float; None if it is not within tol of a small fraction."""
    fr = F(float(x)).limit_denominator(max_den)
    if abs(float(fr) - float(x)) > tol:
        return None
    return fr


@functools.lru_cache(None)
def group_ops(sg):
    """All operations of the standard-setting group modulo the conventional lattice
    (centring translations included): list of (R int 3x3 tuple-of-tuples, t tuple of Fractions)."""
    ops = spglib.get_symmetry_from_database(std_hall(sg))
    out = []
    for R, t in zip(ops["rotations"], ops["translations"]):
        tt = tuple(F(float(x)).limit_denominator(24) for x in t)
        assert all(abs(float(a) - float(b)) < 1e-9 for a, b in zip(tt, t))
        out.append((tuple(tuple(int(v) for v in row) for row in R), tt))
    return out


def det3(R):
    return (R[0][0] * (R[1][1] * R[2][2] - R[1][2] * R[2][1])
            - R[0][1] * (R[1][0] * R[2][2] - R[1][2] * R[2][0])
            + R[0][2] * (R[1][0] * R[2][1] - R[1][1] * R[2][0]))


def is_sohncke(sg):
    return all(det3(R) == 1 for R, _ in group_ops(sg))


def ref_crystal_system(sg):
    for hi, name in ((2, "triclinic"), (15, "monoclinic"), (74, "orthorhombic"), (142, "tetragonal"),
                     (167, "trigonal"), (194, "hexagonal"), (230, "cubic")):
        if sg <= hi:
            return name


def ref_pearson(sg):
    t = spglib.get_spacegroup_type(std_hall(sg))
    letter = {"triclinic": "a", "monoclinic": "m", "orthorhombic": "o", "tetragonal": "t",
              "trigonal": "h", "hexagonal": "h", "cubic": "c"}[ref_crystal_system(sg)]
    c = t.international_short[0]
    if c in "ABC":
        c = "S"
    return letter + c


def ref_pointgroup(sg):
    return spglib.get_spacegroup_type(std_hall(sg)).pointgroup_international


def centring_translations(sg):
    """Pure translations among the database operations (identity rotation), excluding zero."""
    I = ((1, 0, 0), (0, 1, 0), (0, 0, 1))
    return [t for R, t in group_ops(sg) if R == I and any(x % 1 != 0 for x in t)]


def metric_constraints(system, g):
    """Linear constraints on the metric tensor entries g['11'],... of a generic lattice of
    the crystal system in the conventional setting used by spglib (monoclinic unique axis b,
    hexagonal axes for trigonal/hexagonal)."""
    c = []
    if system == "monoclinic":
        c += [g["12"] == 0, g["23"] == 0]
    elif system == "orthorhombic":
        c += [g["12"] == 0, g["13"] == 0, g["23"] == 0]
    elif system == "tetragonal":
        c += [g["12"] == 0, g["13"] == 0, g["23"] == 0, g["11"] == g["22"]]
    elif system in ("trigonal", "hexagonal"):
        c += [g["13"] == 0, g["23"] == 0, g["11"] == g["22"], 2 * g["12"] == -g["11"]]
    elif system == "cubic":
        c += [g["12"] == 0, g["13"] == 0, g["23"] == 0, g["11"] == g["22"], g["22"] == g["33"]]
    return c


def generic_lattice(system):
    """A concrete lattice (rows) with no accidental metric symmetry beyond the system's."""
    import math
    a, b, c = 5.13, 6.71, 8.37
    if system == "triclinic":
        return np.array([[a, 0, 0], [0.9, b, 0], [1.3, 0.7, c]])
    if system == "monoclinic":
        return np.array([[a, 0, 0], [0, b, 0], [-1.7, 0, c]])
    if system == "orthorhombic":
        return np.diag([a, b, c])
    if system == "tetragonal":
        return np.diag([a, a, c])
    if system in ("trigonal", "hexagonal"):
        return np.array([[a, 0, 0], [-a / 2, a * math.sqrt(3) / 2, 0], [0, 0, c]])
    return np.diag([a, a, a])
