"""Parser for the Wyckoff coordinate expressions ('-x+1/2', '2x', 'x-y', '1/4', ...).

Returns a linear form (cx, cy, cz, const) of Fractions.  Raises ValueError on
anything it does not understand (reported as an unreadable table row).
"""
import re
from fractions import Fraction as F

_term = re.compile(r"([+-]?)(\d+(?:/\d+)?|\d*\.\d+)?([xyz]?)")


def parse_linear(expr):
    s = expr.replace(" ", "")
    if not s:
        raise ValueError("empty expression")
    pos, out = 0, [F(0), F(0), F(0), F(0)]
    while pos < len(s):
        m = _term.match(s, pos)
        if m is None or m.end() == pos:
            raise ValueError(f"cannot parse {expr!r} at {pos}")
        sign, num, var = m.groups()
        if not num and not var:
            raise ValueError(f"cannot parse {expr!r} at {pos}")
        if pos > 0 and not sign:
            raise ValueError(f"missing sign in {expr!r} at {pos}")
        v = F(num) if num else F(1)
        if sign == "-":
            v = -v
        out["xyz".index(var) if var else 3] += v
        pos = m.end()
    return tuple(out)
