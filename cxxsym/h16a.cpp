// H16a: the real extend_system (matid/ext/geometry.cpp) on symbolic positions and a symbolic cutoff.
// usage: h16a <cell> <pbc e.g. TTF> <n_atoms> <cutmax num> <cutmax den> <budget_s>
#include <pybind11/numpy.h>
#include "driver.hpp"
#define double SymD
#include "geometry.cpp"
#include "celllist.cpp"
#undef double
namespace py = pybind11;
using namespace sx;

int main(int argc, char** argv) {
    if (argc < 7) { std::fprintf(stderr, "usage\n"); return 2; }
    std::string cellname = argv[1], pbcs = argv[2];
    int n_atoms = atoi(argv[3]); Rat cutmax{atol(argv[4]), atol(argv[5])}; double budget = atof(argv[6]);
    const CellDef& cd = cell_by_name(cellname);
    bool PBC[3]; for (int i = 0; i < 3; i++) PBC[i] = pbcs[i] == 'T';
    bool ZERO[3]; for (int i = 0; i < 3; i++) ZERO[i] = cd.c[i][0].n == 0 && cd.c[i][1].n == 0 && cd.c[i][2].n == 0;
    Run run; run.cfg = "h16a:" + cellname + ":" + pbcs + ":n" + std::to_string(n_atoms);
    auto& En = E(); z3::context& c = En.ctx;
    run.explore([&]() {
        py::array_t<SymD> pos({n_atoms, 3}), cell({3, 3}); py::array_t<int> num({n_atoms}); py::array_t<bool> pbc({3});
        auto cm = cell.mutable_unchecked<2>(); auto pm = pos.mutable_unchecked<2>(); auto bm = pbc.mutable_unchecked<1>();
        auto nm = num.mutable_unchecked<1>();
        z3::expr cut = c.real_const("cut");
        En.assume(cut > 0 && cut <= rq(cutmax));
        std::vector<std::vector<z3::expr>> f(n_atoms);
        std::vector<std::vector<z3::expr>> C(3);
        for (int i = 0; i < 3; i++) { bm(i) = PBC[i]; for (int j = 0; j < 3; j++) { C[i].push_back(rq(cd.c[i][j])); cm(i, j) = SymD(C[i][j]); } }
        for (int l = 0; l < n_atoms; l++) {
            for (int k = 0; k < 3; k++) { f[l].push_back(c.real_const(("f" + std::to_string(l) + "_" + std::to_string(k)).c_str())); En.assume(f[l][k] >= 0 && f[l][k] < 1); }
            for (int j = 0; j < 3; j++) pm(l, j) = SymD((f[l][0] * C[0][j] + f[l][1] * C[1][j] + f[l][2] * C[2][j]).simplify());
            nm(l) = 10 + l;
        }
        run.inputs_json = [&, n_atoms](z3::model& m) {
            std::ostringstream o; o << "{\"cell\":\"" << cellname << "\",\"pbc\":\"" << pbcs << "\",\"cut\":\"" << mstr(m, cut) << "\",\"f\":[";
            for (int l = 0; l < n_atoms; l++) { o << (l ? "," : "") << "[\"" << mstr(m, f[l][0]) << "\",\"" << mstr(m, f[l][1]) << "\",\"" << mstr(m, f[l][2]) << "\"]"; }
            o << "]}"; return o.str(); };
        ExtendedSystem e;
        try { e = extend_system(pos, num, cell, pbc, SymD(cut)); }
        catch (std::invalid_argument& ex) { run.fail(std::string("extend_system raised invalid_argument: ") + ex.what()); return; }
        catch (py::index_error& ex) { run.fail("out-of-range array access in extend_system"); return; }
        catch (std::runtime_error& ex) { if (std::string(ex.what()).find("unknown") == 0) throw Unknown(ex.what()); run.fail(std::string("extend_system: ") + ex.what()); return; }
        auto P = e.positions.unchecked<2>(); auto Fc = e.factors.unchecked<2>(); auto I = e.indices.unchecked<1>(); auto Z = e.atomic_numbers.unchecked<1>();
        int n = e.positions.shape(0);
        bool shapes = e.factors.shape(0) == n && e.indices.shape(0) == n && e.atomic_numbers.shape(0) == n && n % n_atoms == 0 && n >= n_atoms;
        run.ob("tables have one row per image", c.bool_val(shapes));
        if (!shapes) return;
        // concrete integer factors
        std::vector<std::vector<long>> fac(n, std::vector<long>(3, 0)); bool ints = true;
        for (int k = 0; k < n; k++) for (int a = 0; a < 3; a++) {
            z3::expr fe = val(Fc(k, a)).simplify(); int64_t nu, de;
            if (!(fe.is_numeral() && fe.numerator().is_numeral_i64(nu) && fe.denominator().is_numeral_i64(de) && de == 1)) { ints = false; continue; }
            fac[k][a] = nu;
        }
        run.ob("cell offsets are integers", c.bool_val(ints));
        if (!ints) return;
        z3::expr post = c.bool_val(true); bool idx_ok = true, zero_ok = true, first_ok = true, dup = false;
        for (int k = 0; k < n; k++) {
            int l = I(k);
            if (l < 0 || l >= n_atoms) { idx_ok = false; continue; }
            if (Z(k) != 10 + l) idx_ok = false;
            for (int j = 0; j < 3; j++) {
                z3::expr img = val(pm(l, j));
                for (int a = 0; a < 3; a++) if (fac[k][a] != 0) img = img + rvi(fac[k][a]) * C[a][j];
                post = post && (val(P(k, j)) == img);
            }
            for (int a = 0; a < 3; a++) if ((!PBC[a] || ZERO[a]) && fac[k][a] != 0) zero_ok = false;
            if (k < n_atoms && (l != k || fac[k][0] || fac[k][1] || fac[k][2])) first_ok = false;
            for (int k2 = 0; k2 < k; k2++) if (I(k2) == l && fac[k2] == fac[k]) dup = true;
        }
        run.ob("original indices and atomic numbers are carried", c.bool_val(idx_ok));
        run.ob("position = original + offset.cell", post);
        run.ob("no offset along non-periodic or zero-length axes", c.bool_val(zero_ok));
        run.ob("original atoms first, with zero offset", c.bool_val(first_ok));
        run.ob("every (atom, offset) image exactly once", c.bool_val(!dup));
        // every atom has the same set of offsets
        std::vector<std::vector<long>> offs; for (int k = 0; k < n; k++) if (I(k) == 0) offs.push_back(fac[k]);
        bool same = true;
        for (int l = 1; l < n_atoms; l++) { std::vector<std::vector<long>> o2; for (int k = 0; k < n; k++) if (I(k) == l) o2.push_back(fac[k]); auto a = offs, b = o2; std::sort(a.begin(), a.end()); std::sort(b.begin(), b.end()); if (a != b) same = false; }
        run.ob("every atom is repeated with the same offsets", c.bool_val(same));
        // completeness (relaxed form): no omitted offset n whose cell comes strictly within the cutoff of the original cell
        long N[3] = {0, 0, 0}; for (auto& v : offs) for (int a = 0; a < 3; a++) N[a] = std::max(N[a], std::labs(v[a]));
        std::vector<int> lo(3, 0), hi(3, 0);
        for (int a = 0; a < 3; a++) if (PBC[a] && !ZERO[a]) { lo[a] = -(int)N[a] - 2; hi[a] = (int)N[a] + 2; }
        z3::expr t[3] = {c.real_const("t0"), c.real_const("t1"), c.real_const("t2")};
        long omitted = 0, bad = 0;
        for (int n0 = lo[0]; n0 <= hi[0]; n0++) for (int n1 = lo[1]; n1 <= hi[1]; n1++) for (int n2 = lo[2]; n2 <= hi[2]; n2++) {
            std::vector<long> v = {n0, n1, n2};
            if (std::find(offs.begin(), offs.end(), v) != offs.end()) continue;
            ++omitted;
            z3::expr d2 = c.real_val(0);
            for (int j = 0; j < 3; j++) { z3::expr comp = t[0] * C[0][j] + t[1] * C[1][j] + t[2] * C[2][j]; d2 = d2 + comp * comp; }
            z3::expr q = d2 < cut * cut;
            for (int a = 0; a < 3; a++) q = q && (t[a] > rvi(v[a] - 1)) && (t[a] < rvi(v[a] + 1));
            run.ob("complete: no omitted image cell within the cutoff (offset " + std::to_string(n0) + "," + std::to_string(n1) + "," + std::to_string(n2) + ")", !q);
        }
        run.reach["copies:" + std::to_string(N[0]) + std::to_string(N[1]) + std::to_string(N[2])]++;
    }, budget);
    return 0;
}
