// H16b: the real CellList (matid/ext/celllist.cpp): construction on m points and one neighbour query.
// One symbolic coordinate per point and for the query (axis `ax`); the other two coordinates come from a concrete grid
// that straddles bin edges.  usage: h16b <m> <ax> <grid variant> <budget_s> [pmax]
#include <pybind11/numpy.h>
#include "driver.hpp"
#define double SymD
#include "geometry.cpp"
#include "celllist.cpp"
#undef double
namespace py = pybind11;
using namespace sx;

int main(int argc, char** argv) {
    if (argc < 5) { std::fprintf(stderr, "usage\n"); return 2; }
    int m = atoi(argv[1]), ax = atoi(argv[2]), variant = atoi(argv[3]); double budget = atof(argv[4]); long pmax = argc > 5 ? atol(argv[5]) : 4;
    // concrete coordinates for the two other axes (per point) and for the query; chosen around multiples of the cutoff range
    static const Rat GRID[3][4][2] = {
        {{{0,1},{0,1}}, {{1,2},{3,1}}, {{5,2},{1,4}}, {{7,2},{6,1}}},
        {{{0,1},{0,1}}, {{0,1},{0,1}}, {{0,1},{0,1}}, {{0,1},{0,1}}},
        {{{0,1},{0,1}}, {{3,1},{3,1}}, {{6,1},{-3,1}}, {{-2,1},{5,2}}},
    };
    static const Rat QG[3][2] = {{{1,4},{3,2}}, {{0,1},{0,1}}, {{1,1},{1,1}}};
    Run run; run.cfg = "h16b:m" + std::to_string(m) + ":ax" + std::to_string(ax) + ":g" + std::to_string(variant) + ":r" + std::to_string(pmax);
    auto& En = E(); z3::context& c = En.ctx;
    int o1 = (ax + 1) % 3, o2 = (ax + 2) % 3;
    run.explore([&]() {
        py::array_t<SymD> pos({m, 3}), fac({m, 3}); py::array_t<int> idx({m});
        auto pm = pos.mutable_unchecked<2>(); auto fm = fac.mutable_unchecked<2>(); auto im = idx.mutable_unchecked<1>();
        z3::expr cut = c.real_const("cut");
        En.assume(cut >= rq({1, 2}) && cut <= rvi(3));
        std::vector<z3::expr> p; std::vector<std::vector<z3::expr>> P(m);
        for (int l = 0; l < m; l++) {
            p.push_back(c.real_const(("p" + std::to_string(l)).c_str()));
            En.assume(p[l] >= 0 && p[l] <= rvi(pmax));
            P[l] = {c.real_val(0), c.real_val(0), c.real_val(0)};
            P[l][ax] = p[l]; P[l][o1] = rq(GRID[variant][l][0]); P[l][o2] = rq(GRID[variant][l][1]);
            for (int j = 0; j < 3; j++) { pm(l, j) = SymD(P[l][j]); fm(l, j) = SymD(rvi(10 * l + j)); }
            im(l) = 100 + l;
        }
        z3::expr q = c.real_const("q");
        std::vector<z3::expr> Q = {c.real_val(0), c.real_val(0), c.real_val(0)};
        Q[ax] = q; Q[o1] = rq(QG[variant][0]); Q[o2] = rq(QG[variant][1]);
        // the query point lies in the bounding box of the points (the cell) widened by one cutoff
        z3::expr lo = p[0], hi = p[0];
        for (int l = 1; l < m; l++) { lo = z3::ite(p[l] < lo, p[l], lo); hi = z3::ite(p[l] > hi, p[l], hi); }
        En.assume(q >= lo - cut && q <= hi + cut);
        run.inputs_json = [&](z3::model& mo) {
            std::ostringstream o; o << "{\"ax\":" << ax << ",\"variant\":" << variant << ",\"cut\":\"" << mstr(mo, cut) << "\",\"q\":[\"" << mstr(mo, Q[0]) << "\",\"" << mstr(mo, Q[1]) << "\",\"" << mstr(mo, Q[2]) << "\"],\"points\":[";
            for (int l = 0; l < m; l++) o << (l ? "," : "") << "[\"" << mstr(mo, P[l][0]) << "\",\"" << mstr(mo, P[l][1]) << "\",\"" << mstr(mo, P[l][2]) << "\"]";
            o << "]}"; return o.str(); };
        CellListResult r;
        try {
            CellList cl(pos, idx, fac, SymD(cut));
            r = cl.get_neighbours_for_position(SymD(Q[0]), SymD(Q[1]), SymD(Q[2]));
        }
        catch (std::invalid_argument& ex) { run.fail(std::string("CellList raised invalid_argument: ") + ex.what()); return; }
        catch (py::index_error& ex) { run.fail("out-of-range array access in CellList"); return; }
        catch (std::out_of_range& ex) { run.fail("out-of-range bin access in CellList"); return; }
        catch (std::runtime_error& ex) { if (std::string(ex.what()).find("unknown") == 0) throw Unknown(ex.what()); run.fail(std::string("CellList: ") + ex.what()); return; }
        size_t k = r.indices.size();
        bool shapes = r.distances.size() == k && r.distances_squared.size() == k && r.displacements.size() == k && r.indices_original.size() == k && r.factors.size() == k;
        run.ob("result vectors have equal length", c.bool_val(shapes));
        if (!shapes) return;
        std::vector<int> count(m, 0); bool range_ok = true;
        for (size_t i = 0; i < k; i++) { if (r.indices[i] < 0 || r.indices[i] >= m) range_ok = false; else count[r.indices[i]]++; }
        run.ob("returned indices are valid", c.bool_val(range_ok));
        if (!range_ok) return;
        for (int l = 0; l < m; l++) {
            z3::expr d2 = c.real_val(0);
            for (int j = 0; j < 3; j++) d2 = d2 + (Q[j] - P[l][j]) * (Q[j] - P[l][j]);
            z3::expr within = d2 <= cut * cut;
            run.ob("a point is returned exactly once iff it lies within the cutoff (never one beyond it)", z3::ite(within, c.bool_val(count[l] == 1), c.bool_val(count[l] == 0)));
        }
        z3::expr post = c.bool_val(true); bool fwd = true;
        for (size_t i = 0; i < k; i++) {
            int l = r.indices[i];
            z3::expr d2 = c.real_val(0);
            for (int j = 0; j < 3; j++) { d2 = d2 + (Q[j] - P[l][j]) * (Q[j] - P[l][j]); post = post && (val(r.displacements[i][j]) == (Q[j] - P[l][j])); }
            post = post && (val(r.distances_squared[i]) == d2);
            // distance = sqrt(distance_squared): lazy square root, compare squares
            const SymD& dd = r.distances[i];
            post = post && (dd.lazy ? (dd.n == d2 * dd.d) : (dd.n * dd.n == d2 * dd.d * dd.d && dd.n >= 0));
            if (r.indices_original[i] != 100 + l) fwd = false;
            for (int j = 0; j < 3; j++) { z3::expr fe = val(r.factors[i][j]).simplify(); int64_t nu; if (!(fe.is_numeral() && fe.numerator().is_numeral_i64(nu) && nu == 10 * l + j)) fwd = false; }
        }
        run.ob("exact distance, squared distance and displacement (query - point)", post);
        run.ob("original index and cell offset of each neighbour are forwarded", c.bool_val(fwd));
        run.reach["neighbours:" + std::to_string(k)]++;
    }, budget);
    return 0;
}
