// Engine C driver: depth-first exploration by re-execution, obligations, JSON lines on stdout.
#pragma once
#include "symd.hpp"
#include <functional>
#include <csignal>
#include <cstdio>
namespace sx {
struct Rat { long n, d; };
inline z3::expr rq(const Rat& r) { return (rvi(r.n) / rvi(r.d)).simplify(); }
// the fixed family of rational cells (rows are lattice vectors); the last three are degenerate (zero vectors)
struct CellDef { const char* name; Rat c[3][3]; };
static const CellDef CELLS[] = {
    {"ortho",  {{{3,1},{0,1},{0,1}}, {{0,1},{4,1},{0,1}}, {{0,1},{0,1},{5,1}}}},
    {"tricl",  {{{3,1},{0,1},{0,1}}, {{1,1},{4,1},{0,1}}, {{-1,1},{2,1},{5,1}}}},
    {"pyth",   {{{2,1},{3,1},{6,1}}, {{-1,1},{4,1},{8,1}}, {{2,1},{-6,1},{9,1}}}},
    {"shear",  {{{2,1},{0,1},{0,1}}, {{14,1},{2,1},{0,1}}, {{-6,1},{10,1},{2,1}}}},
    {"rot",    {{{6,7},{9,7},{18,7}}, {{12,7},{-24,7},{8,7}}, {{30,7},{10,7},{-15,7}}}},
    {"needle", {{{1,1},{0,1},{0,1}}, {{0,1},{1,1},{0,1}}, {{0,1},{0,1},{30,1}}}},
    {"plate",  {{{12,1},{0,1},{0,1}}, {{5,1},{12,1},{0,1}}, {{0,1},{0,1},{1,2}}}},
    {"zero_c", {{{3,1},{0,1},{0,1}}, {{1,1},{4,1},{0,1}}, {{0,1},{0,1},{0,1}}}},
    {"zero_ab",{{{0,1},{0,1},{0,1}}, {{0,1},{0,1},{0,1}}, {{-1,1},{2,1},{5,1}}}},
    {"zero_abc",{{{0,1},{0,1},{0,1}}, {{0,1},{0,1},{0,1}}, {{0,1},{0,1},{0,1}}}},
};
inline const CellDef& cell_by_name(const std::string& n) { for (auto& c : CELLS) if (n == c.name) return c; throw std::runtime_error("unknown cell " + n); }
inline std::string mstr(z3::model& m, const z3::expr& e) {
    z3::expr v = m.eval(e, true);
    if (v.is_algebraic()) { std::string s = v.get_decimal_string(17); if (!s.empty() && s.back() == '?') s.pop_back(); return s; }   // irrational witness: decimal approximation
    std::ostringstream o; o << v; return o.str();
}
inline std::string jesc(const std::string& s) { std::string o; for (char ch : s) { if (ch == '"' || ch == '\\') o += '\\'; if (ch == '\n') { o += "\\n"; continue; } o += ch; } return o; }
struct Run {
    long paths = 0, aborted = 0, obligations = 0, discharged = 0, unknowns = 0, errors = 0, cex = 0;
    std::map<std::string, long> reach;
    std::function<std::string(z3::model&)> inputs_json;   // set by the harness body for the current path
    std::string cfg;
    void ob(const std::string& label, const z3::expr& post) {
        ++obligations;
        z3::expr p = post.simplify();
        if (p.is_true()) { ++discharged; return; }
        auto r = E().check_with(!p);
        if (r == z3::unknown) {
            // second opinion on polynomial queries: the nlsat tactic on the same assertions
            try {
                z3::solver s2 = z3::tactic(E().ctx, "qfnra-nlsat").mk_solver();
                z3::params pr(E().ctx); pr.set("timeout", E().timeout_ms); s2.set(pr);
                for (auto const& a : E().s->assertions()) s2.add(a);
                s2.add(!p);
                auto t0 = std::chrono::steady_clock::now();
                auto r2 = s2.check(); ++E().checks;
                E().solver_s += std::chrono::duration<double>(std::chrono::steady_clock::now() - t0).count();
                if (r2 == z3::unsat) r = z3::unsat;
            } catch (z3::exception&) {}
        }
        if (r == z3::unsat) { ++discharged; return; }
        if (r == z3::unknown) { ++unknowns; std::printf("{\"type\":\"unknown\",\"cfg\":\"%s\",\"label\":\"%s\"}\n", cfg.c_str(), jesc(label).c_str()); return; }
        ++cex;
        if (cex <= 5) {
            E().s->push(); E().s->add(!p); E().s->check(); z3::model m = E().s->get_model(); E().s->pop();
            std::printf("{\"type\":\"cex\",\"cfg\":\"%s\",\"label\":\"%s\",\"inputs\":%s}\n", cfg.c_str(), jesc(label).c_str(), inputs_json ? inputs_json(m).c_str() : "{}");
        }
    }
    void fail(const std::string& label) {   // violation established without a formula (exception of the code under test ...)
        ++obligations; ++cex;
        if (cex <= 5) {
            auto r = E().s->check();
            if (r == z3::sat) { z3::model m = E().s->get_model(); std::printf("{\"type\":\"cex\",\"cfg\":\"%s\",\"label\":\"%s\",\"inputs\":%s}\n", cfg.c_str(), jesc(label).c_str(), inputs_json ? inputs_json(m).c_str() : "{}"); }
        }
    }
    template <class F> void explore(F body, double budget_s) {
        auto& En = E();
        auto t0 = std::chrono::steady_clock::now();
        En.work.clear(); En.work.push_back({});
        bool truncated = false;
        while (!En.work.empty()) {
            if (std::chrono::duration<double>(std::chrono::steady_clock::now() - t0).count() > budget_s) { truncated = true; break; }
            auto pre = En.work.back(); En.work.pop_back(); En.reset(pre);
            inputs_json = nullptr;
            try {
                body();
                // reachability twin: the path condition must be satisfiable
                auto r = En.s->check();
                if (r == z3::unsat) { ++aborted; continue; }
                ++paths;
            } catch (Abort&) { ++aborted; }
              catch (Unknown& ex) { ++unknowns; ++paths; std::printf("{\"type\":\"unknown\",\"cfg\":\"%s\",\"label\":\"%s\"}\n", cfg.c_str(), jesc(ex.what()).c_str()); }
              catch (z3::exception& ex) { ++errors; std::printf("{\"type\":\"error\",\"cfg\":\"%s\",\"what\":\"z3: %s\"}\n", cfg.c_str(), jesc(ex.msg()).c_str()); }
        }
        double secs = std::chrono::duration<double>(std::chrono::steady_clock::now() - t0).count();
        std::printf("{\"type\":\"summary\",\"cfg\":\"%s\",\"paths\":%ld,\"aborted\":%ld,\"forks\":%ld,\"obligations\":%ld,\"discharged\":%ld,\"unknown\":%ld,\"errors\":%ld,\"cex\":%ld,\"checks\":%ld,\"solver_s\":%.3f,\"wall_s\":%.3f,\"truncated\":%s,\"reach\":{",
                    cfg.c_str(), paths, aborted, En.forks, obligations, discharged, unknowns, errors, cex, En.checks, En.solver_s, secs, truncated ? "true" : "false");
        bool first = true; for (auto& kv : reach) { std::printf("%s\"%s\":%ld", first ? "" : ",", kv.first.c_str(), kv.second); first = false; }
        std::printf("}}\n");
        std::fflush(stdout);
    }
};
}
