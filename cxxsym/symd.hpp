// Engine C: symbolic stand-in for `double` used to compile the real matid/ext/*.cpp.
// SymD = fraction n/d (d > 0) of z3 real terms - never a z3 division - with an optional lazy square root.
// SymB::operator bool is the fork point; integers are concretised by enumerating candidates with real-only constraints.
#pragma once
#include <z3++.h>
#include <vector>
#include <map>
#include <tuple>
#include <string>
#include <stdexcept>
#include <limits>
#include <cmath>
#include <chrono>
#include <iostream>
#include <sstream>
namespace sx {
struct Abort {};
struct Unknown : std::runtime_error { using std::runtime_error::runtime_error; };
struct Engine {
    z3::context ctx;
    z3::solver* s = nullptr;
    struct Dec { int d; long hint; };
    std::vector<Dec> dec; size_t cur = 0;
    std::vector<std::vector<Dec>> work;
    long checks = 0, forks = 0; int fresh = 0; double solver_s = 0; unsigned timeout_ms = 20000;
    std::map<std::string, std::string> sqrt_cache;
    std::map<unsigned, int> known; std::vector<z3::expr> keep;   // `keep` pins the ASTs whose ids are cached
    void reset(const std::vector<Dec>& pre) {
        delete s;
        // SX_NLSAT=1: polynomial real arithmetic only -> the nlsat tactic as the path solver (no integers are ever declared:
        // conversions to int enumerate candidates under real-only constraints)
        if (getenv("SX_NLSAT")) s = new z3::solver(z3::tactic(ctx, "qfnra-nlsat").mk_solver()); else s = new z3::solver(ctx);
        z3::params p(ctx); p.set("timeout", timeout_ms); s->set(p);
        dec = pre; cur = 0; sqrt_cache.clear(); known.clear(); keep.clear(); int_cache.clear(); fresh = 0;
    }
    z3::check_result check_with(const z3::expr& c) {
        auto t0 = std::chrono::steady_clock::now();
        ++checks; s->push(); s->add(c); auto r = s->check(); s->pop();
        solver_s += std::chrono::duration<double>(std::chrono::steady_clock::now() - t0).count();
        return r;
    }
    bool feasible(const z3::expr& c) {
        auto r = check_with(c);
        if (r == z3::unknown) {
            // second opinion: the nlsat tactic on the same assertions (polynomial real arithmetic only)
            try {
                z3::solver s2 = z3::tactic(ctx, "qfnra-nlsat").mk_solver();
                z3::params pr(ctx); pr.set("timeout", 3 * timeout_ms); s2.set(pr);
                for (auto const& a : s->assertions()) s2.add(a);
                s2.add(c);
                auto t0 = std::chrono::steady_clock::now();
                r = s2.check(); ++checks;
                solver_s += std::chrono::duration<double>(std::chrono::steady_clock::now() - t0).count();
            } catch (z3::exception&) {}
        }
        if (r == z3::unknown) { std::ostringstream o; o << "unknown feasibility: " << c; throw Unknown(o.str().substr(0, 300)); }
        return r == z3::sat;
    }
    bool replaying() const { return cur < dec.size(); }
    long replay_hint() const { return dec[cur].hint; }
    std::map<std::tuple<unsigned, unsigned, int>, long> int_cache;
    bool branch(const z3::expr& c, long hint = 0, bool use_cache = true) {
        z3::expr cs = c.simplify();
        if (cs.is_true()) return true;
        if (cs.is_false()) return false;
        auto it = known.find(cs.id());
        if (use_cache && it != known.end()) return it->second != 0;
        int d;
        if (cur < dec.size()) d = dec[cur].d;
        else {
            bool t = feasible(cs), f = feasible(!cs);
            if (t && f) { auto alt = std::vector<Dec>(dec.begin(), dec.begin() + cur); alt.push_back(Dec{0, hint}); work.push_back(alt); d = 1; ++forks; }
            else if (t) d = 1; else if (f) d = 0; else throw Abort();
            dec.push_back(Dec{d, hint});
        }
        ++cur; s->add(d ? cs : !cs); known[cs.id()] = d; keep.push_back(cs);
        return d != 0;
    }
    void assume(const z3::expr& c) { s->add(c); }
};
inline Engine& E() { static Engine e; return e; }
inline z3::expr rv(double x) { char buf[64]; snprintf(buf, sizeof buf, "%.17g", x); return E().ctx.real_val(buf); }
inline z3::expr rvi(long x) { return E().ctx.real_val((int64_t)x); }
struct SymB {
    z3::expr e;
    operator bool() const { return E().branch(e); }
    SymB operator!() const { return SymB{!e}; }
};
inline SymB operator&&(const SymB& a, const SymB& b) { return SymB{a.e && b.e}; }
inline SymB operator||(const SymB& a, const SymB& b) { return SymB{a.e || b.e}; }
struct SymD {
    z3::expr n, d; bool inf = false; bool lazy = false;   // value = n/d, or sqrt(n/d) if lazy (then n/d >= 0); invariant d > 0
    SymD() : n(E().ctx.real_val(0)), d(E().ctx.real_val(1)) {}
    SymD(const z3::expr& x) : n(x), d(E().ctx.real_val(1)) {}
    SymD(const z3::expr& x, const z3::expr& y) : n(x.simplify()), d(y.simplify()) {}
    SymD(double x) : n(E().ctx.real_val(0)), d(E().ctx.real_val(1)) { if (std::isinf(x)) inf = true; else n = rv(x); }
    SymD(int x) : n(rvi(x)), d(E().ctx.real_val(1)) {}
    SymD(long x) : n(rvi(x)), d(E().ctx.real_val(1)) {}
    SymD(unsigned long x) : n(E().ctx.real_val((uint64_t)x)), d(E().ctx.real_val(1)) {}
    SymD(bool x) : n(rvi(x ? 1 : 0)), d(E().ctx.real_val(1)) {}
    bool numeral() const { return n.is_numeral() && d.is_numeral(); }
    SymD plain() const {   // materialise a lazy square root (fallback; avoided on the hot paths)
        if (!lazy) return *this;
        z3::context& c = E().ctx;
        if (numeral()) {
            z3::expr qv = (n / d).simplify();
            std::string key = qv.to_string();
            int64_t num, den;
            if (qv.numerator().is_numeral_i64(num) && qv.denominator().is_numeral_i64(den)) {
                long rn = llround(std::sqrt((double)num)), rd = llround(std::sqrt((double)den));
                if (rn * rn == num && rd * rd == den) return SymD(rvi(rn), rvi(rd));
            }
            auto it = E().sqrt_cache.find(key);
            std::string name;
            if (it == E().sqrt_cache.end()) {
                name = "sqrtc!" + std::to_string(E().fresh++); E().sqrt_cache[key] = name;
                z3::expr r = c.real_const(name.c_str()); E().assume(r >= 0 && r * r * d == n);
            } else name = it->second;
            return SymD(c.real_const(name.c_str()));
        }
        z3::expr r = c.real_const(("sqrt!" + std::to_string(E().fresh++)).c_str());
        E().assume(r >= 0 && r * r * d == n); return SymD(r);
    }
    // integer concretisation: trunc toward zero, or ceil; candidates k with real-only constraints
    int concretise(bool is_ceil) const {
        if (inf) throw std::runtime_error("int(inf)");
        z3::context& c = E().ctx;
        if (!lazy && numeral()) {
            z3::expr qv = (n / d).simplify(); int64_t a, b;
            if (qv.numerator().is_numeral_i64(a) && qv.denominator().is_numeral_i64(b)) {
                double v = (double)a / (double)b; long k = is_ceil ? (long)std::ceil(v) : (long)std::trunc(v);
                // exact: adjust using integer arithmetic
                if (is_ceil) { k = a / b; if ((a % b != 0) && ((a > 0) == (b > 0))) ++k; }
                else k = a / b;
                return (int)k;
            }
        }
        // the same value converted before on this path gives the same integer (consulted before any decision is consumed,
        // so that a replay stays aligned with the recorded decisions)
        auto ckey = std::make_tuple(n.id(), d.id(), (lazy ? 2 : 0) + (is_ceil ? 1 : 0));
        { auto hit = E().int_cache.find(ckey); if (hit != E().int_cache.end()) return (int)hit->second; }
        for (int iter = 0; iter <= 400; ++iter) {
            // candidate from a model of the path condition (recorded in the decision so that a replay asks the same question)
            long k;
            if (E().replaying()) k = E().replay_hint();
            else {
                ++E().checks;
                auto r = E().s->check();
                if (r == z3::unsat) throw Abort();
                if (r == z3::unknown) throw Unknown("unknown in integer concretisation");
                z3::model m = E().s->get_model();
                z3::expr qv = m.eval(n / d, true);
                double v = 0; std::string sv = qv.get_decimal_string(12); if (!sv.empty() && sv.back() == '?') sv.pop_back(); v = atof(sv.c_str());
                if (lazy) v = std::sqrt(v < 0 ? 0 : v);
                k = is_ceil ? (long)std::ceil(v - 1e-9) : (long)std::trunc(v + (v >= 0 ? 1e-9 : -1e-9));
                if (lazy && k < 0) k = 0;
            }
            z3::expr kk = rvi(k);
            z3::expr cond = c.bool_val(false);
            if (!lazy) {
                cond = is_ceil ? ((kk - 1) * d < n && n <= kk * d)
                    : (k > 0 ? (kk * d <= n && n < (kk + 1) * d) : k < 0 ? (kk * d >= n && n > (kk - 1) * d) : (-d < n && n < d));
            } else {   // sqrt(X) >= 0 with X = n/d
                if (is_ceil) cond = (k == 0) ? (n == 0) : (rvi((k - 1) * (k - 1)) * d < n && n <= rvi(k * k) * d);
                else cond = (rvi(k * k) * d <= n && n < rvi((k + 1) * (k + 1)) * d);
            }
            z3::expr cs_ = cond.simplify();
            bool took;
            if (cs_.is_true() || cs_.is_false()) {
                // decided by simplification: still recorded as a (solver-free) decision so that replays stay aligned
                took = cs_.is_true();
                if (!E().replaying()) E().dec.push_back(Engine::Dec{took ? 1 : 0, k});
                ++E().cur;
            }
            else took = E().branch(cond, k, false);   // always consumes exactly one decision
            if (getenv("SX_DEBUG")) std::cerr << "concretise k=" << k << " took=" << took << " lazy=" << lazy << " ceil=" << is_ceil << " replay=" << E().replaying() << " n/d=" << (n / d).simplify() << std::endl;
            if (took) { E().int_cache[ckey] = k; E().keep.push_back(n); E().keep.push_back(d); return (int)k; }
        }
        throw std::runtime_error("int concretisation did not converge");
    }
    operator int() const { return concretise(false); }
    explicit operator bool() const {
        if (inf) return true;
        return E().branch(n != 0);
    }
    SymD& operator+=(const SymD& o); SymD& operator-=(const SymD& o); SymD& operator*=(const SymD& o); SymD& operator/=(const SymD& o);
};
inline SymD mkinf() { SymD r; r.inf = true; return r; }
inline SymD operator+(const SymD& a0, const SymD& b0) { if (a0.inf || b0.inf) return mkinf(); SymD a = a0.plain(), b = b0.plain(); return SymD(a.n * b.d + b.n * a.d, a.d * b.d); }
inline SymD operator-(const SymD& a0, const SymD& b0) { if (a0.inf) return mkinf(); if (b0.inf) throw std::runtime_error("x-inf"); SymD a = a0.plain(), b = b0.plain(); return SymD(a.n * b.d - b.n * a.d, a.d * b.d); }
inline SymD operator*(const SymD& a0, const SymD& b0) {
    if (a0.inf || b0.inf) return mkinf();
    if (a0.lazy && b0.lazy) { SymD r(a0.n * b0.n, a0.d * b0.d); r.lazy = true; return r; }
    SymD a = a0.plain(), b = b0.plain(); return SymD(a.n * b.n, a.d * b.d);
}
inline SymD operator/(const SymD& a0, const SymD& b0) {
    if (b0.inf) { if (a0.inf) throw std::runtime_error("inf/inf"); return SymD(0); }
    if (a0.inf) return mkinf();
    if (b0.lazy) {
        // a / sqrt(Y): for a >= 0 this is sqrt(a^2 / Y) (kept lazy); Y > 0 required
        if (!E().branch(b0.n > 0)) throw std::runtime_error("division by zero (IEEE inf/nan not modelled)");
        if (a0.lazy) { SymD r(a0.n * b0.d, a0.d * b0.n); r.lazy = true; return r; }
        if (E().branch(a0.n >= 0)) { SymD r(a0.n * a0.n * b0.d, a0.d * a0.d * b0.n); r.lazy = true; return r; }
        SymD b = b0.plain(); return SymD(a0.n * b.d, a0.d * b.n);
    }
    SymD a = a0.plain(), b = b0;
    if (E().branch(b.n > 0)) return SymD(a.n * b.d, a.d * b.n);
    if (E().branch(b.n < 0)) return SymD(-a.n * b.d, -a.d * b.n);
    throw std::runtime_error("division by zero (IEEE inf/nan not modelled)");
}
inline SymD operator-(const SymD& a0) { if (a0.inf) throw std::runtime_error("-inf"); SymD a = a0.plain(); return SymD(-a.n, a.d); }
inline SymD& SymD::operator+=(const SymD& o) { *this = *this + o; return *this; }
inline SymD& SymD::operator-=(const SymD& o) { *this = *this - o; return *this; }
inline SymD& SymD::operator*=(const SymD& o) { *this = *this * o; return *this; }
inline SymD& SymD::operator/=(const SymD& o) { *this = *this / o; return *this; }
// op: 0 '<', 1 '<=', 2 '=='
inline SymB cmp(const SymD& a, const SymD& b, int op) {
    z3::context& c = E().ctx;
    if (a.inf || b.inf) { bool r = op == 0 ? (!a.inf && b.inf) : op == 1 ? (b.inf) : (a.inf && b.inf); return SymB{c.bool_val(r)}; }
    if (a.lazy && b.lazy) {   // sqrt(X) ? sqrt(Y)  <=>  X ? Y
        z3::expr l = a.n * b.d, r = b.n * a.d;
        return SymB{(op == 0 ? l < r : op == 1 ? l <= r : l == r).simplify()};
    }
    if (a.lazy) {             // sqrt(X) ? v
        z3::expr X = a.n * b.d * b.d, V2 = b.n * b.n * a.d;   // X/a.d ? (b.n/b.d)^2  with a.d, b.d > 0
        z3::expr f = op == 0 ? (b.n > 0 && X < V2) : op == 1 ? (b.n >= 0 && X <= V2) : (b.n >= 0 && X == V2);
        return SymB{f.simplify()};
    }
    if (b.lazy) {             // v ? sqrt(Y)
        z3::expr Y = b.n * a.d * a.d, V2 = a.n * a.n * b.d;
        z3::expr f = op == 0 ? (a.n < 0 || V2 < Y) : op == 1 ? (a.n <= 0 || V2 <= Y) : (a.n >= 0 && V2 == Y);
        return SymB{f.simplify()};
    }
    z3::expr l = a.n * b.d, r = b.n * a.d;
    return SymB{(op == 0 ? l < r : op == 1 ? l <= r : l == r).simplify()};
}
inline SymB operator<(const SymD& a, const SymD& b) { return cmp(a, b, 0); }
inline SymB operator<=(const SymD& a, const SymD& b) { return cmp(a, b, 1); }
inline SymB operator>(const SymD& a, const SymD& b) { return cmp(b, a, 0); }
inline SymB operator>=(const SymD& a, const SymD& b) { return cmp(b, a, 1); }
inline SymB operator==(const SymD& a, const SymD& b) { return cmp(a, b, 2); }
inline SymB operator!=(const SymD& a, const SymD& b) { return !cmp(a, b, 2); }
inline SymD sqrt(const SymD& a) {
    if (a.inf) return a;
    SymD r = a.plain();
    if (!E().branch(r.n >= 0)) throw std::runtime_error("sqrt of a negative value");
    r.lazy = true; return r;
}
inline SymD ceil(const SymD& a) { return SymD(a.concretise(true)); }
inline SymD floor(const SymD& a) { SymD m = -a; return SymD(-m.concretise(true)); }
inline SymD fabs(const SymD& a) { if (a.lazy) return a; return E().branch(a.n >= 0) ? a : -a; }
inline SymD abs(const SymD& a) { return fabs(a); }
#define SX_MIX(T) \
 inline SymD operator+(const SymD& a, T b){return a+SymD(b);} inline SymD operator+(T a,const SymD& b){return SymD(a)+b;} \
 inline SymD operator-(const SymD& a, T b){return a-SymD(b);} inline SymD operator-(T a,const SymD& b){return SymD(a)-b;} \
 inline SymD operator*(const SymD& a, T b){return a*SymD(b);} inline SymD operator*(T a,const SymD& b){return SymD(a)*b;} \
 inline SymD operator/(const SymD& a, T b){return a/SymD(b);} inline SymD operator/(T a,const SymD& b){return SymD(a)/b;} \
 inline SymB operator<(const SymD& a, T b){return a<SymD(b);} inline SymB operator<(T a,const SymD& b){return SymD(a)<b;} \
 inline SymB operator<=(const SymD& a, T b){return a<=SymD(b);} inline SymB operator<=(T a,const SymD& b){return SymD(a)<=b;} \
 inline SymB operator>(const SymD& a, T b){return a>SymD(b);} inline SymB operator>(T a,const SymD& b){return SymD(a)>b;} \
 inline SymB operator>=(const SymD& a, T b){return a>=SymD(b);} inline SymB operator>=(T a,const SymD& b){return SymD(a)>=b;} \
 inline SymB operator==(const SymD& a, T b){return a==SymD(b);} inline SymB operator==(T a,const SymD& b){return SymD(a)==b;} \
 inline SymB operator!=(const SymD& a, T b){return a!=SymD(b);} inline SymB operator!=(T a,const SymD& b){return SymD(a)!=b;}
SX_MIX(int) SX_MIX(double) SX_MIX(long) SX_MIX(bool)
// value as a z3 term (plain values only); sq() gives the square of a possibly lazy value without a square root
inline z3::expr val(const SymD& a) { SymD p = a.plain(); if (p.d.is_numeral()) return (p.n / p.d).simplify(); return p.n / p.d; }
inline z3::expr num(const SymD& a) { return a.n; }
inline z3::expr den(const SymD& a) { return a.d; }
}
using sx::SymD; using sx::SymB;
namespace std {
template<> struct numeric_limits<SymD> { static SymD infinity() { return SymD(numeric_limits<double>::infinity()); } };
}
