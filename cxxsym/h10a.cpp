// H10a: the real get_displacement_tensor (geometry.cpp -> extend_system -> CellList::get_displacement_tensor).
// n atoms inside the cell, one symbolic fractional coordinate per atom (axis `ax`), the others from a concrete grid;
// symbolic cutoff in [1/2, cutmax] or +inf.  usage: h10a <cell> <pbc> <n_atoms> <ax> <cutmax|inf> <K oracle box> <budget_s> [cutmin num den]
#include <pybind11/numpy.h>
#include "driver.hpp"
#define double SymD
#include "geometry.cpp"
#include "celllist.cpp"
#undef double
namespace py = pybind11;
using namespace sx;

int main(int argc, char** argv) {
    if (argc < 8) { std::fprintf(stderr, "usage\n"); return 2; }
    std::string cellname = argv[1], pbcs = argv[2]; int n = atoi(argv[3]), ax = atoi(argv[4]);
    bool infcut = std::string(argv[5]) == "inf"; long cutmax = infcut ? 0 : atol(argv[5]); int K = atoi(argv[6]); double budget = atof(argv[7]); Rat cutmin{argc > 9 ? atol(argv[8]) : 1, argc > 9 ? atol(argv[9]) : 2};
    const CellDef& cd = cell_by_name(cellname);
    bool PBC[3]; for (int i = 0; i < 3; i++) PBC[i] = pbcs[i] == 'T';
    static const Rat GRID[3][2] = {{{1, 4}, {2, 3}}, {{3, 10}, {3, 5}}, {{1, 5}, {7, 10}}};
    Run run; run.cfg = "h10a:" + cellname + ":" + pbcs + ":n" + std::to_string(n) + ":ax" + std::to_string(ax) + ":" + argv[5];
    auto& En = E(); z3::context& c = En.ctx;
    int o1 = ax < 3 ? (ax + 1) % 3 : 0, o2 = ax < 3 ? (ax + 2) % 3 : 0;
    run.explore([&]() {
        py::array_t<SymD> pos({n, 3}), cell({3, 3}), disp({n, n, 3}), dist({n, n}), fact({n, n, 3}); py::array_t<bool> pbc({3});
        auto cm = cell.mutable_unchecked<2>(); auto pm = pos.mutable_unchecked<2>(); auto bm = pbc.mutable_unchecked<1>();
        auto Dm = disp.mutable_unchecked<3>(); auto dm = dist.mutable_unchecked<2>(); auto Fm = fact.mutable_unchecked<3>();
        std::vector<std::vector<z3::expr>> C(3);
        for (int i = 0; i < 3; i++) { bm(i) = PBC[i]; for (int j = 0; j < 3; j++) { C[i].push_back(rq(cd.c[i][j])); cm(i, j) = SymD(C[i][j]); } }
        z3::expr cut = c.real_const("cut");
        if (!infcut) En.assume(cut >= rq(cutmin) && cut <= rvi(cutmax));
        std::vector<z3::expr> s; std::vector<std::vector<z3::expr>> f(n), R(n);
        for (int l = 0; l < n; l++) {
            s.push_back(c.real_const(("s" + std::to_string(l)).c_str())); En.assume(s[l] >= 0 && s[l] < 1);
            f[l] = {c.real_val(0), c.real_val(0), c.real_val(0)};
            if (ax < 3) { f[l][ax] = s[l]; f[l][o1] = rq(GRID[l % 3][0]); f[l][o2] = rq(GRID[l % 3][1]); }
            else {   // ax = 10 + k: two symbolic coordinates per atom (all but axis k)
                int kfix = ax - 10, a1 = (kfix + 1) % 3, a2 = (kfix + 2) % 3;
                z3::expr s2 = c.real_const(("u" + std::to_string(l)).c_str()); En.assume(s2 >= 0 && s2 < 1);
                f[l][a1] = s[l]; f[l][a2] = s2; f[l][kfix] = rq(GRID[l % 3][0]);
            }
            for (int j = 0; j < 3; j++) { R[l].push_back((f[l][0] * C[0][j] + f[l][1] * C[1][j] + f[l][2] * C[2][j]).simplify()); pm(l, j) = SymD(R[l][j]); }
        }
        for (int i = 0; i < n; i++) for (int j = 0; j < n; j++) { dm(i, j) = mkinf(); for (int k = 0; k < 3; k++) { Dm(i, j, k) = mkinf(); Fm(i, j, k) = mkinf(); } }
        run.inputs_json = [&](z3::model& m) {
            std::ostringstream o; o << "{\"cell\":\"" << cellname << "\",\"pbc\":\"" << pbcs << "\",\"cut\":\"" << (infcut ? std::string("inf") : mstr(m, cut)) << "\",\"f\":[";
            for (int l = 0; l < n; l++) o << (l ? "," : "") << "[\"" << mstr(m, f[l][0]) << "\",\"" << mstr(m, f[l][1]) << "\",\"" << mstr(m, f[l][2]) << "\"]";
            o << "]}"; return o.str(); };
        try { get_displacement_tensor(disp, dist, fact, pos, cell, pbc, infcut ? mkinf() : SymD(cut), true, true); }
        catch (std::invalid_argument& ex) { run.fail(std::string("get_displacement_tensor raised invalid_argument: ") + ex.what()); return; }
        catch (py::index_error& ex) { run.fail("out-of-range array access in get_displacement_tensor"); return; }
        catch (std::out_of_range& ex) { run.fail("out-of-range bin access in get_displacement_tensor"); return; }
        catch (std::runtime_error& ex) { if (std::string(ex.what()).find("unknown") == 0) throw Unknown(ex.what()); run.fail(std::string("get_displacement_tensor: ") + ex.what()); return; }
        long nfinite = 0;
        for (int i = 0; i < n; i++) for (int j = 0; j < n; j++) {
            const SymD& dd = dm(i, j);
            std::string tag = " [pair " + std::to_string(i) + "," + std::to_string(j) + "]";
            // squared image distances for the oracle box
            std::vector<z3::expr> cand;
            for (int a = (PBC[0] ? -K : 0); a <= (PBC[0] ? K : 0); a++) for (int b = (PBC[1] ? -K : 0); b <= (PBC[1] ? K : 0); b++) for (int g = (PBC[2] ? -K : 0); g <= (PBC[2] ? K : 0); g++) {
                z3::expr d2 = c.real_val(0);
                for (int k = 0; k < 3; k++) { z3::expr comp = R[i][k] - R[j][k] - (rvi(a) * C[0][k] + rvi(b) * C[1][k] + rvi(g) * C[2][k]); d2 = d2 + comp * comp; }
                cand.push_back(d2.simplify());
            }
            if (i == j) {
                bool z = !dd.inf;   // sqrt(0) may be carried lazily: only the radicand matters
                z3::expr post = c.bool_val(z);
                if (z) { post = post && (dd.n == 0); for (int k = 0; k < 3; k++) post = post && !c.bool_val(Dm(i, i, k).inf || Fm(i, i, k).inf) && (Dm(i, i, k).inf ? c.bool_val(false) : (Dm(i, i, k).n == 0)) && (Fm(i, i, k).inf ? c.bool_val(false) : (Fm(i, i, k).n == 0)); }
                run.ob("zero diagonal" + tag, post);
                continue;
            }
            if (dd.inf) {
                bool allinf = true; for (int k = 0; k < 3; k++) if (!Dm(i, j, k).inf || !Fm(i, j, k).inf) allinf = false;
                run.ob("an infinite distance comes with infinite displacement and factor entries" + tag, c.bool_val(allinf));
                if (infcut) { run.ob("unbounded cutoff: no pair is infinite" + tag, c.bool_val(false)); continue; }
                z3::expr beyond = c.bool_val(true);
                for (auto& d2 : cand) beyond = beyond && (d2 > cut * cut);
                run.ob("a pair reported as infinite is beyond the cutoff (every image farther than the cutoff)" + tag, beyond);
                continue;
            }
            ++nfinite;
            bool fin = true; for (int k = 0; k < 3; k++) if (Dm(i, j, k).inf || Fm(i, j, k).inf) fin = false;
            run.ob("finite distance comes with finite displacement and factors" + tag, c.bool_val(fin));
            if (!fin) continue;
            // genuine image vector: disp = r_i - r_j - factor.cell, integer factors that vanish on non-periodic axes
            std::vector<long> fac(3, 0); bool ints = true;
            for (int k = 0; k < 3; k++) { z3::expr fe = val(Fm(i, j, k)).simplify(); int64_t nu, de; if (!(fe.is_numeral() && fe.numerator().is_numeral_i64(nu) && fe.denominator().is_numeral_i64(de) && de == 1)) ints = false; else fac[k] = nu; }
            run.ob("factors are integers" + tag, c.bool_val(ints));
            if (!ints) continue;
            bool nonper = true; for (int k = 0; k < 3; k++) if (!PBC[k] && fac[k] != 0) nonper = false;
            run.ob("factors vanish along non-periodic axes" + tag, c.bool_val(nonper));
            z3::expr post = c.bool_val(true), d2 = c.real_val(0);
            for (int k = 0; k < 3; k++) {
                z3::expr v = R[i][k] - R[j][k] - (rvi(fac[0]) * C[0][k] + rvi(fac[1]) * C[1][k] + rvi(fac[2]) * C[2][k]);
                post = post && (val(Dm(i, j, k)) == v); d2 = d2 + v * v;
            }
            run.ob("displacement = r_i - r_j - factor.cell" + tag, post);
            run.ob("distance = |displacement|" + tag, dd.lazy ? (dd.n == d2 * dd.d) : (dd.n * dd.n == d2 * dd.d * dd.d && dd.n >= 0));
            // antisymmetry / symmetry with the transposed entry
            const SymD& dt = dm(j, i);
            z3::expr anti = c.bool_val(!dt.inf);
            if (!dt.inf) {
                anti = (dt.lazy && dd.lazy) ? (dt.n * dd.d == dd.n * dt.d) : (val(dt) == val(dd));
                for (int k = 0; k < 3; k++) anti = anti && !c.bool_val(Dm(j, i, k).inf || Fm(j, i, k).inf) && (val(Dm(j, i, k)) == -val(Dm(i, j, k))) && (val(Fm(j, i, k)) == -val(Fm(i, j, k)));
            }
            run.ob("tables are symmetric / antisymmetric" + tag, anti);
            // exact minimum over the oracle box, and within the cutoff
            z3::expr exact = c.bool_val(true);
            for (auto& q2 : cand) exact = exact && (d2 <= q2);
            run.ob("reported distance is the minimum over all images (oracle box)" + tag, exact);
            if (!infcut) run.ob("reported pair is within the cutoff" + tag, d2 <= cut * cut);
        }
        run.reach["finite:" + std::to_string(nfinite)]++;
    }, budget);
    return 0;
}
