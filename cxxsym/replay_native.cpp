// Concrete replay: the same sources compiled with plain double against the stand-in header.
// usage: replay_native ext|cl|dt <args...>  (numbers as decimal strings); prints JSON.
#include <pybind11/numpy.h>
#include <cstdio>
#include <cstdlib>
#include <string>
#include <iostream>
#include "geometry.cpp"
#include "celllist.cpp"
namespace py = pybind11;
static void parr(const char* name, const std::vector<double>& v) { std::printf("\"%s\":[", name); for (size_t i = 0; i < v.size(); i++) { if (std::isinf(v[i])) std::printf("%s\"inf\"", i ? "," : ""); else std::printf("%s%.17g", i ? "," : "", v[i]); } std::printf("]"); }
int main(int argc, char** argv) {
    std::string mode = argv[1]; int a = 2;
    try {
    if (mode == "ext" || mode == "dt") {
        py::array_t<double> cell({3, 3}); py::array_t<bool> pbc({3});
        auto cm = cell.mutable_unchecked<2>(); auto bm = pbc.mutable_unchecked<1>();
        for (int i = 0; i < 3; i++) for (int j = 0; j < 3; j++) cm(i, j) = atof(argv[a++]);
        for (int i = 0; i < 3; i++) bm(i) = atoi(argv[a++]) != 0;
        double cutoff = std::string(argv[a]) == "inf" ? std::numeric_limits<double>::infinity() : atof(argv[a]); a++;
        int n = atoi(argv[a++]);
        py::array_t<double> pos({n, 3}); py::array_t<int> num({n});
        auto pm = pos.mutable_unchecked<2>(); auto nm = num.mutable_unchecked<1>();
        for (int l = 0; l < n; l++) { for (int j = 0; j < 3; j++) pm(l, j) = atof(argv[a++]); nm(l) = 10 + l; }
        if (mode == "ext") {
            ExtendedSystem e = extend_system(pos, num, cell, pbc, cutoff);
            int N = e.positions.shape(0); std::vector<double> P, F, I, Z;
            auto p = e.positions.unchecked<2>(); auto f = e.factors.unchecked<2>(); auto ix = e.indices.unchecked<1>(); auto z = e.atomic_numbers.unchecked<1>();
            for (int k = 0; k < N; k++) { for (int j = 0; j < 3; j++) { P.push_back(p(k, j)); F.push_back(f(k, j)); } I.push_back(ix(k)); Z.push_back(z(k)); }
            std::printf("{"); parr("positions", P); std::printf(","); parr("factors", F); std::printf(","); parr("indices", I); std::printf(","); parr("numbers", Z); std::printf("}\n");
        } else {
            py::array_t<double> disp({n, n, 3}), dist({n, n}), fact({n, n, 3});
            auto D = disp.mutable_unchecked<3>(); auto d = dist.mutable_unchecked<2>(); auto Fm = fact.mutable_unchecked<3>();
            double inf = std::numeric_limits<double>::infinity();
            for (int i = 0; i < n; i++) for (int j = 0; j < n; j++) { d(i, j) = inf; for (int k = 0; k < 3; k++) { D(i, j, k) = inf; Fm(i, j, k) = inf; } }
            get_displacement_tensor(disp, dist, fact, pos, cell, pbc, cutoff, true, true);
            std::vector<double> A, B, C;
            for (int i = 0; i < n; i++) for (int j = 0; j < n; j++) { B.push_back(d(i, j)); for (int k = 0; k < 3; k++) { A.push_back(D(i, j, k)); C.push_back(Fm(i, j, k)); } }
            std::printf("{"); parr("displacements", A); std::printf(","); parr("distances", B); std::printf(","); parr("factors", C); std::printf("}\n");
        }
    } else if (mode == "cl") {
        double cutoff = atof(argv[a++]); double q[3]; for (int j = 0; j < 3; j++) q[j] = atof(argv[a++]);
        int m = atoi(argv[a++]);
        py::array_t<double> pos({m, 3}), fac({m, 3}); py::array_t<int> idx({m});
        auto pm = pos.mutable_unchecked<2>(); auto fm = fac.mutable_unchecked<2>(); auto im = idx.mutable_unchecked<1>();
        for (int l = 0; l < m; l++) { for (int j = 0; j < 3; j++) { pm(l, j) = atof(argv[a++]); fm(l, j) = 10 * l + j; } im(l) = 100 + l; }
        CellList cl(pos, idx, fac, cutoff);
        CellListResult r = cl.get_neighbours_for_position(q[0], q[1], q[2]);
        std::vector<double> I, Dd, D2, Dis, Io, Fa;
        for (size_t i = 0; i < r.indices.size(); i++) { I.push_back(r.indices[i]); Dd.push_back(r.distances[i]); D2.push_back(r.distances_squared[i]); Io.push_back(r.indices_original[i]); for (int j = 0; j < 3; j++) { Dis.push_back(r.displacements[i][j]); Fa.push_back(r.factors[i][j]); } }
        std::printf("{"); parr("indices", I); std::printf(","); parr("distances", Dd); std::printf(","); parr("distances_squared", D2); std::printf(","); parr("displacements", Dis); std::printf(","); parr("indices_original", Io); std::printf(","); parr("factors", Fa); std::printf("}\n");
    }
    } catch (std::exception& ex) { std::printf("{\"exception\":\"%s\"}\n", ex.what()); }
    return 0;
}
