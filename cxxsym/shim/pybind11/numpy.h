// Minimal stand-in for pybind11/numpy.h (pybind11 is not installed in this sandbox): just enough surface for
// matid/ext/{geometry,celllist}.cpp.  Accessors are bounds-checked so that an out-of-range table access is reported.
#pragma once
#include <vector>
#include <initializer_list>
#include <memory>
#include <cstddef>
#include <cmath>
#include <math.h>
#include <stdexcept>
#include <unordered_map>
#include <map>
#include <tuple>
#include <utility>
#include <algorithm>
#include <limits>
#include <string>
#include <sys/types.h>
namespace pybind11 {
typedef ::ssize_t ssize_t;
struct index_error : std::out_of_range { using std::out_of_range::out_of_range; };
template <typename T> struct storage_of { typedef T type; };
template <> struct storage_of<bool> { typedef char type; };
template <typename T, int N> struct unchecked_ref {
    typedef typename storage_of<T>::type S;
    S* data; const ssize_t* shp;
    ssize_t shape(int i) const { return shp[i]; }
    void chk(ssize_t i, int ax) const { if (i < 0 || i >= shp[ax]) throw index_error("array index out of range"); }
    S& operator()(ssize_t i) const { chk(i, 0); return data[i]; }
    S& operator()(ssize_t i, ssize_t j) const { chk(i, 0); chk(j, 1); return data[i*shp[1]+j]; }
    S& operator()(ssize_t i, ssize_t j, ssize_t k) const { chk(i, 0); chk(j, 1); chk(k, 2); return data[(i*shp[1]+j)*shp[2]+k]; }
};
template <typename T> struct array_t {
    typedef typename storage_of<T>::type S;
    std::shared_ptr<std::vector<S>> buf; std::vector<ssize_t> shp;
    array_t() {}
    array_t(std::initializer_list<ssize_t> s) : shp(s) { ssize_t n=1; for (auto x: shp) n*=x; buf=std::make_shared<std::vector<S>>(n); }
    template <int N> unchecked_ref<T,N> unchecked() const { return unchecked_ref<T,N>{buf->data(), shp.data()}; }
    template <int N> unchecked_ref<T,N> mutable_unchecked() { return unchecked_ref<T,N>{buf->data(), shp.data()}; }
    ssize_t shape(int i) const { return shp[i]; }
    ssize_t size() const { ssize_t n=1; for (auto x: shp) n*=x; return n; }
};
}
