#pragma once
#include "numpy.h"
