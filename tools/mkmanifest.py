import json
claimed = json.load(open('/verif/tools/claimed.json'))
props=[json.loads(l) for l in open('/verif/properties.jsonl')]
na_fixed={
 "C02":"decided end to end by PeriodicFinder's heuristics (span statistics, basis choice, region tracking) over 50-300 atoms in floating point with tolerances; no specification short of the run itself and far beyond what a bounded symbolic run can carry (DESIGN.md §5)",
 "C03":"same as C02: outcome is PeriodicFinder's heuristic region search on two stacked slabs (>=100 atoms, float tolerances); not encodable within reach (DESIGN.md §5)",
 "C04":"composition of PeriodicFinder (C02) with spglib's symmetry search (C library); neither is encodable (DESIGN.md §5)",
 "C18":"classification outcome hinges on PeriodicFinder's heuristic region search over whole slabs; same reason as C02 (DESIGN.md §5)"}
checks=[]; na=[]
for p in props:
    i=p['id']
    if i in claimed:
        c=claimed[i]
        checks.append({"property_id":i,"quick_cmd":f"bin/check {i} --tier quick","thorough_cmd":f"bin/check {i} --tier thorough",
          "evidence_file":f"evidence/{i}.json","replay_cmd_template":f"bin/check {i} --replay {{path}}","engine":c["engine"],
          "level_claimed":{"category":c["level"],"text":c["text"],"design_ref":c["design_ref"]},"level_note":c["note"],"technique":c["technique"]})
    elif i in na_fixed:
        na.append({"property_id":i,"reason":na_fixed[i]})
    else:
        na.append({"property_id":i,"reason":"check still under construction in this round (design in DESIGN.md §4); not claimed until its harness is committed"})
m={"version":1,"setup_cmd":"bin/ensure_env.sh",
 "hooks":{"guard":"MATID_VERIF","enable":"none needed: all instrumentation is namespace substitution from the harness side; no hook commits exist in /repo","baseline_off_cmd":"cd /repo && /venv/bin/python -m pytest -ra -q -p no:cacheprovider --timeout=900 --continue-on-collection-errors","source_commits":[],"add_only":True},
 "engines":json.load(open('/verif/tools/engines.json')),
 "checks":checks,
 "notes":"Solver-based checking of the real code: Engine A (symx) runs the unmodified Python functions on symbolic values and discharges per-path obligations with z3; Engine C (cxxsym) compiles the real C++ sources against a z3-backed scalar; Engine T turns every table row into SMT obligations against spglib's Hall database. All claims are bounded and in exact real arithmetic (DESIGN.md §9). Defects found and repaired are listed in known_findings.json (status fixed); seeded changes and which checks catch them are in DESIGN.md §8 and seeded/.",
 "not_applicable":na}
json.dump(m,open('/verif/MANIFEST.json','w'),indent=1)
print(len(checks),len(na))
