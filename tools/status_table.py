#!/usr/bin/env python3
"""prints the §0 status table of DESIGN.md from the evidence files of the last runs"""
import json, glob, os
V = os.path.dirname(os.path.dirname(os.path.abspath(__file__)))
print("| id | tier | paths (states) | fork decisions | obligations | discharged | witness replays | solver s | wall s |")
print("|---|---|---|---|---|---|---|---|---|")
for f in sorted(glob.glob(V + "/evidence/C*.json")):
    e = json.load(open(f)); c = e["coverage"]
    print(f"| {e['property_id']} | {e['tier']} | {c['states']} | {c['transitions']} | {c['obligations']} | {c['discharged']} | {c['traces_validated_against_impl']} | {c['solver_s']} | {e['wall_s']} |")
