#!/usr/bin/env python3
"""rewrites the figure columns of the §0 status table of DESIGN.md from evidence/<id>.json (quick column) and, if a directory
with thorough evidence files is given as argument, from those (thorough column)"""
import json, os, re, sys
V = os.path.dirname(os.path.dirname(os.path.abspath(__file__)))
thor = sys.argv[1] if len(sys.argv) > 1 else None


def fmt(n):
    return f"{n:,}".replace(",", " ")


def wall(s):
    return f"{s:.0f} s" if s < 120 else (f"{s / 60:.1f} min" if s < 600 else f"{s / 60:.0f} min")
lines = open(V + "/DESIGN.md").read().split("\n")
for i, l in enumerate(lines):
    m = re.match(r"\| (C\d\d) \| ([^|]+) \| ([^|]+) \| ([^|]+) \| ([^|]+) \|$", l)
    if not m:
        continue
    pid, eng, what, q, t = m.groups()
    f = f"{V}/evidence/{pid}.json"
    if os.path.exists(f):
        e = json.load(open(f)); c = e["coverage"]
        if e["tier"] == "quick":
            q = f"{fmt(c['states'])} / {fmt(c['obligations'])} / {fmt(c['traces_validated_against_impl'])} / {wall(e['wall_s'])}"
    if thor and os.path.exists(f"{thor}/{pid}.json"):
        e = json.load(open(f"{thor}/{pid}.json")); c = e["coverage"]
        if e["tier"] == "thorough":
            t = f"{fmt(c['states'])} / {fmt(c['obligations'])} / {wall(e['wall_s'])}"
    lines[i] = f"| {pid} | {eng} | {what} | {q.strip()} | {t.strip()} |"
open(V + "/DESIGN.md", "w").write("\n".join(lines))
