#!/bin/bash
# runs every claimed check once (tier $1, default quick) on the current /repo tree and prints one line per property
TIER="${1:-quick}"; cd "$(dirname "$0")/.."
IDS="${@:2}"; [ -z "$IDS" ] && IDS=$(python3 -c "import json;print(' '.join(c['property_id'] for c in json.load(open('MANIFEST.json'))['checks']))")
for p in $IDS; do
  s=$(date +%s); bin/check $p --tier $TIER > /tmp/run_all_$p.log 2>&1; rc=$?; echo "$p rc=$rc $(( $(date +%s) - s ))s $(tail -1 /tmp/run_all_$p.log | cut -c1-200)"
done
