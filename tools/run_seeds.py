#!/usr/bin/env python3
"""Applies every seeded change in /verif/seeded to /repo (one at a time, always undone), runs the quick check of its
property and records exit code and first VIOLATION line in seeded/RESULTS.json.  Never run while a `vp run` uses /repo."""
import glob, json, os, subprocess, sys
V = os.path.dirname(os.path.dirname(os.path.abspath(__file__)))
only = sys.argv[1:]
res = {}
if os.path.exists(V + "/seeded/RESULTS.json"):
    res = json.load(open(V + "/seeded/RESULTS.json"))
for d in sorted(glob.glob(V + "/seeded/*/")):
    name = os.path.basename(d.rstrip("/"))
    if only and name not in only:
        continue
    meta = json.load(open(d + "meta.json"))
    patch = d + "patch.diff"
    if open(patch).read().startswith("# large data patch"):
        sha = name.split("-")[1]
        patch = "/tmp/_fixrev.diff"
        open(patch, "w").write(subprocess.run(["git", "-C", "/repo", "show", sha, "-R", "--format="], capture_output=True, text=True).stdout)
    props = [meta["property"]] + ([p for p in ("C10", "C16") if p != meta["property"]] if name.startswith("cxx-") else [])
    if name == "fixrev-ddfe2a7":
        props = ["C14", "C05"]
    if name == "fixrev-b94bfba":
        props = ["C14", "C08"]
    for p in props:
        out = subprocess.run([V + "/tools/try_seed.sh", patch, p, "quick", "3"], capture_output=True, text=True).stdout
        rc = [l for l in out.splitlines() if l.startswith("rc=")]
        first = [l.strip() for l in out.splitlines() if l.strip().startswith("key=")]
        res[f"{name}:{p}"] = {"seed": name, "check": p, "rc": rc[0] if rc else out[-200:], "first_violation": first[0][:300] if first else None,
                              "detected": bool(rc) and rc[0] == "rc=1"}
        print(name, p, res[f"{name}:{p}"]["rc"], (first[0][:120] if first else ""), flush=True)
        json.dump(res, open(V + "/seeded/RESULTS.json", "w"), indent=1)
