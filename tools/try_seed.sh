#!/bin/bash
# usage: tools/try_seed.sh <patch.diff> <ID> [tier] [lines]
# Applies the patch to a scratch worktree of /repo HEAD (never to /repo itself), runs the check against that tree with its
# evidence/replays written to a scratch directory, removes the worktree.
P="$(realpath "$1")"; ID="$2"; TIER="${3:-quick}"
WT=$(mktemp -d /tmp/seedwt.XXXXXX); OUTD=$(mktemp -d /tmp/seedout.XXXXXX)
rmdir "$WT"; git -C /repo worktree add -q --detach "$WT" HEAD || exit 9
cp /repo/matid/ext.cpython-312-x86_64-linux-gnu.so "$WT/matid/" 2>/dev/null
if ! git -C "$WT" apply "$P"; then echo "patch does not apply"; git -C /repo worktree remove --force "$WT"; rm -rf "$OUTD"; exit 9; fi
( cd /verif && VERIF_REPO="$WT" VERIF_OUT="$OUTD" bin/check "$ID" --tier "$TIER" > /tmp/try_seed_$ID.$$.log 2>&1 ); rc=$?
git -C /repo worktree remove --force "$WT"; rm -rf "$OUTD"
echo "rc=$rc"; grep -E "^(VIOLATION|KNOWN|NONREPRO|HARNESS|INCONCLUSIVE|  key=|\[)" /tmp/try_seed_$ID.$$.log | head -${4:-12}; rm -f /tmp/try_seed_$ID.$$.log
exit 0
