#!/bin/bash
# usage: tools/try_seed.sh <patch.diff> <ID> [tier]   -- applies the patch to /repo, runs the check, always undoes it
P="$(realpath "$1")"; ID="$2"; TIER="${3:-quick}"
cd /repo || exit 9
if [ -n "$(git status --porcelain --untracked-files=no)" ]; then echo "/repo not clean"; exit 9; fi
git apply "$P" || { echo "patch does not apply"; exit 9; }
( cd /verif && bin/check "$ID" --tier "$TIER" > /tmp/try_seed_$ID.log 2>&1 ); rc=$?
git -C /repo checkout -- .
# leave evidence/replays of the seeded run out of the tree
( cd /verif && git checkout -- evidence/$ID.json 2>/dev/null; git clean -qfd replays 2>/dev/null )
echo "rc=$rc"; grep -E "^(VIOLATION|KNOWN|NONREPRO|HARNESS|INCONCLUSIVE|  key=|\[)" /tmp/try_seed_$ID.log | head -${4:-12}
exit 0
