#!/bin/bash
# usage: tools/confirm_seed.sh <seed-src-dir (patch.diff, demo.py, meta.json)> <name>
# Confirms in a scratch worktree of /repo HEAD: demo passes without the patch, fails with it, test suite passes with it.
# On success stores /verif/seeded/<name>/{patch.diff,demo.py,meta.json}.
SRC="$1"; NAME="$2"; WT=/tmp/confirm/$NAME
mkdir -p /tmp/confirm; rm -rf "$WT"; git -C /repo worktree prune
git -C /repo worktree add -q --detach "$WT" HEAD || exit 9
cp /repo/matid/ext.cpython-312-x86_64-linux-gnu.so "$WT/matid/"
mkdir -p "$WT/_seed/X"; cp "$SRC/demo.py" "$WT/_seed/X/demo.py"
cd "$WT"
# demos locate the checkout root relative to their own path or cwd; run exactly as the agents did
( timeout 1200 /venv/bin/python _seed/X/demo.py > /tmp/confirm/$NAME.clean.log 2>&1 ); rc_clean=$?
git apply "$SRC/patch.diff" 2>/tmp/confirm/$NAME.apply.log; rc_apply=$?
rc_seed=-1; n_pass=-1
if [ $rc_apply -eq 0 ]; then
  ( timeout 1200 /venv/bin/python _seed/X/demo.py > /tmp/confirm/$NAME.seed.log 2>&1 ); rc_seed=$?
  timeout 1500 /venv/bin/python -m pytest -q -p no:cacheprovider --timeout=900 tests > /tmp/confirm/$NAME.tests.log 2>&1
  n_pass=$(grep -Eo "^[0-9]+ passed" /tmp/confirm/$NAME.tests.log | grep -Eo "[0-9]+"); n_fail=$(grep -Eo "[0-9]+ failed" /tmp/confirm/$NAME.tests.log | grep -Eo "[0-9]+")
fi
cd /; git -C /repo worktree remove --force "$WT"
ok=0; [ "$rc_clean" = 0 ] && [ "$rc_apply" = 0 ] && [ "$rc_seed" != 0 ] && [ "$n_pass" = 110 ] && [ -z "$n_fail" ] && ok=1
echo "$NAME: demo_clean_rc=$rc_clean apply_rc=$rc_apply demo_seed_rc=$rc_seed tests_passed=$n_pass failed=${n_fail:-0} confirmed=$ok"
if [ $ok = 1 ]; then
  D=/verif/seeded/$NAME; mkdir -p "$D"; cp "$SRC/patch.diff" "$SRC/demo.py" "$D/"
  /venv/bin/python - "$SRC/meta.json" "$D/meta.json" "$NAME" <<PY
import json,sys
m=json.load(open(sys.argv[1]))
out={"name":sys.argv[3],"property":m.get("property"),"summary":m.get("summary"),"needs_to_manifest":m.get("needs_to_manifest"),"files":m.get("files"),
 "author":"independent sub-agent given only the property text and a scratch worktree",
 "confirmed_by_me":{"base":"$(git -C /repo rev-parse --short HEAD)","demo_on_clean_tree_rc":$rc_clean,"demo_with_patch_rc":$rc_seed,"pytest_with_patch":"$n_pass passed, ${n_fail:-0} failed",
 "commands":["git worktree add /tmp/confirm/$NAME HEAD","python _seed/X/demo.py","git apply patch.diff","python _seed/X/demo.py","python -m pytest -q tests"]}}
json.dump(out,open(sys.argv[2],"w"),indent=1)
PY
fi
